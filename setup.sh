#!/bin/sh
# Build the Rust tools used by the checks, offline, from files on disk only.
set -e
cd "$(dirname "$0")"
export CARGO_NET_OFFLINE=true
(cd tools/mirdump && cargo +nightly build --release --offline 2>&1 | tail -3)
echo "setup ok"
