"""Compile-accept / compile-reject corpus for the lifetime half of C04.

Every rejecting program has a twin that differs only in where the field is used (inside the
scope / before the mutation) and must compile, so a typo cannot pass as a rejection.  Programs are
only type- and borrow-checked (`rustc --emit=metadata`); nothing is linked or run."""
import json
import os
import shutil
import subprocess
import tempfile
import concurrent.futures as cf

REPO = os.environ.get("VERIF_REPO", "/repo")

BORROW_CODES = {"E0597", "E0505", "E0506", "E0502", "E0499", "E0716", "E0515", "E0503", "E0521", "E0621", "E0713", "E0510"}

REQ_BUF = 'b"GET /x HTTP/1.1\\r\\nHost: a\\r\\n\\r\\n".to_vec()'
RESP_BUF = 'b"HTTP/1.1 200 OK\\r\\nHost: a\\r\\n\\r\\n".to_vec()'
HDR_BUF = 'b"Host: a\\r\\nX: y\\r\\n\\r\\n".to_vec()'

# entry point -> (setup code binding `r` (or `res`) from `buf` and `h`, list of (field name, expression yielding a reference))
ENTRIES = {
    "Request::parse": dict(
        buf=REQ_BUF, harr="let mut h = [httparse::EMPTY_HEADER; 4];",
        call="let mut r = httparse::Request::new(&mut h); let _ = r.parse(&buf);",
        fields=[("method", "r.method.unwrap()"), ("path", "r.path.unwrap()"), ("header_name", "r.headers[0].name"), ("header_value", "r.headers[0].value")],
        hslice="r.headers"),
    "Request::parse_with_uninit_headers": dict(
        buf=REQ_BUF, harr="let mut h = [std::mem::MaybeUninit::<httparse::Header>::uninit(); 4];",
        call="let mut r = httparse::Request::new(&mut []); let _ = r.parse_with_uninit_headers(&buf, &mut h);",
        fields=[("method", "r.method.unwrap()"), ("path", "r.path.unwrap()"), ("header_name", "r.headers[0].name"), ("header_value", "r.headers[0].value")],
        hslice="r.headers"),
    "ParserConfig::parse_request": dict(
        buf=REQ_BUF, harr="let mut h = [httparse::EMPTY_HEADER; 4];",
        call="let mut r = httparse::Request::new(&mut h); let _ = httparse::ParserConfig::default().parse_request(&mut r, &buf);",
        fields=[("method", "r.method.unwrap()"), ("path", "r.path.unwrap()"), ("header_name", "r.headers[0].name"), ("header_value", "r.headers[0].value")],
        hslice="r.headers"),
    "ParserConfig::parse_request_with_uninit_headers": dict(
        buf=REQ_BUF, harr="let mut h = [std::mem::MaybeUninit::<httparse::Header>::uninit(); 4];",
        call="let mut r = httparse::Request::new(&mut []); let _ = httparse::ParserConfig::default().parse_request_with_uninit_headers(&mut r, &buf, &mut h);",
        fields=[("method", "r.method.unwrap()"), ("path", "r.path.unwrap()"), ("header_name", "r.headers[0].name"), ("header_value", "r.headers[0].value")],
        hslice="r.headers"),
    "Response::parse": dict(
        buf=RESP_BUF, harr="let mut h = [httparse::EMPTY_HEADER; 4];",
        call="let mut r = httparse::Response::new(&mut h); let _ = r.parse(&buf);",
        fields=[("reason", "r.reason.unwrap()"), ("header_name", "r.headers[0].name"), ("header_value", "r.headers[0].value")],
        hslice="r.headers"),
    "ParserConfig::parse_response": dict(
        buf=RESP_BUF, harr="let mut h = [httparse::EMPTY_HEADER; 4];",
        call="let mut r = httparse::Response::new(&mut h); let _ = httparse::ParserConfig::default().parse_response(&mut r, &buf);",
        fields=[("reason", "r.reason.unwrap()"), ("header_name", "r.headers[0].name"), ("header_value", "r.headers[0].value")],
        hslice="r.headers"),
    "ParserConfig::parse_response_with_uninit_headers": dict(
        buf=RESP_BUF, harr="let mut h = [std::mem::MaybeUninit::<httparse::Header>::uninit(); 4];",
        call="let mut r = httparse::Response::new(&mut []); let _ = httparse::ParserConfig::default().parse_response_with_uninit_headers(&mut r, &buf, &mut h);",
        fields=[("reason", "r.reason.unwrap()"), ("header_name", "r.headers[0].name"), ("header_value", "r.headers[0].value")],
        hslice="r.headers"),
    "parse_headers": dict(
        buf=HDR_BUF, harr="let mut h = [httparse::EMPTY_HEADER; 4];",
        call="let r = httparse::parse_headers(&buf, &mut h).unwrap().unwrap().1;",
        fields=[("header_name", "r[0].name"), ("header_value", "r[0].value")],
        hslice="r"),
}


def prog(body):
    return "#![allow(unused)]\nfn show<T: std::fmt::Debug + ?Sized>(t: &T) { println!(\"{:?}\", t); }\nfn main() {\n" + body + "\n}\n"


def generate():
    """List of dicts: name, src, expect ('reject'|'accept'), twin name."""
    out = []

    def pair(name, bad, good):
        out.append({"name": name, "src": prog(bad), "expect": "reject", "twin": name + "~twin"})
        out.append({"name": name + "~twin", "src": prog(good), "expect": "accept", "twin": None})

    for ep, e in ENTRIES.items():
        key = ep.replace("::", "_")
        for fname, fexpr in e["fields"]:
            # A. buffer dropped while the field is live
            pair("%s/%s/buffer-dropped" % (key, fname),
                 "%s\n let f;\n {\n  let buf = %s;\n  %s\n  f = %s;\n }\n show(f);" % (e["harr"], e["buf"], e["call"], fexpr),
                 "%s\n {\n  let buf = %s;\n  %s\n  let f = %s;\n  show(f);\n }" % (e["harr"], e["buf"], e["call"], fexpr))
            # B. buffer mutated while the field is live
            pair("%s/%s/buffer-mutated" % (key, fname),
                 "%s\n let mut buf = %s;\n %s\n let f = %s;\n buf[0] = b'X';\n show(f);" % (e["harr"], e["buf"], e["call"], fexpr),
                 "%s\n let mut buf = %s;\n {\n %s\n let f = %s;\n show(f);\n }\n buf[0] = b'X';" % (e["harr"], e["buf"], e["call"], fexpr))
            # C. buffer moved while the field is live
            pair("%s/%s/buffer-moved" % (key, fname),
                 "%s\n let buf = %s;\n %s\n let f = %s;\n let moved = buf;\n show(f);" % (e["harr"], e["buf"], e["call"], fexpr),
                 "%s\n let buf = %s;\n {\n %s\n let f = %s;\n show(f);\n }\n let moved = buf;" % (e["harr"], e["buf"], e["call"], fexpr))
        # D. header array dropped while the headers slice is live
        pair("%s/headers/array-dropped" % key,
             " let buf = %s;\n let hs;\n {\n  %s\n  %s\n  hs = %s;\n }\n show(&hs.len());" % (e["buf"], e["harr"], e["call"], e["hslice"]),
             " let buf = %s;\n {\n  %s\n  %s\n  let hs = %s;\n  show(&hs.len());\n }" % (e["buf"], e["harr"], e["call"], e["hslice"]))
        # E. header array written while the headers slice is live
        if "MaybeUninit" not in e["harr"]:
            pair("%s/headers/array-mutated" % key,
                 " let buf = %s;\n %s\n %s\n let hs = %s;\n h[0] = httparse::EMPTY_HEADER;\n show(&hs.len());" % (e["buf"], e["harr"], e["call"], e["hslice"]),
                 " let buf = %s;\n %s\n {\n %s\n let hs = %s;\n show(&hs.len());\n }\n h[0] = httparse::EMPTY_HEADER;" % (e["buf"], e["harr"], e["call"], e["hslice"]))
        else:
            pair("%s/headers/array-mutated" % key,
                 " let buf = %s;\n %s\n %s\n let hs = %s;\n h[0] = std::mem::MaybeUninit::uninit();\n show(&hs.len());" % (e["buf"], e["harr"], e["call"], e["hslice"]),
                 " let buf = %s;\n %s\n {\n %s\n let hs = %s;\n show(&hs.len());\n }\n h[0] = std::mem::MaybeUninit::uninit();" % (e["buf"], e["harr"], e["call"], e["hslice"]))
        # F. a field escaping through a function return (returning a reference to a local buffer)
        fname, fexpr = e["fields"][0]
        ret = "&'static str" if "value" not in fname else "&'static [u8]"
        out.append({"name": "%s/%s/returned-from-fn" % (key, fname), "expect": "reject", "twin": "%s/%s/returned-from-fn~twin" % (key, fname),
                    "src": "#![allow(unused)]\nfn leak() -> %s {\n %s\n let buf = %s;\n %s\n %s\n}\nfn main() { println!(\"{:?}\", leak()); }\n" % (ret, e["harr"], e["buf"], e["call"], fexpr)})
        out.append({"name": "%s/%s/returned-from-fn~twin" % (key, fname), "expect": "accept", "twin": None,
                    "src": "#![allow(unused)]\nfn leak() -> String {\n %s\n let buf = %s;\n %s\n format!(\"{:?}\", %s)\n}\nfn main() { println!(\"{:?}\", leak()); }\n" % (e["harr"], e["buf"], e["call"], fexpr)})

    # the doc(hidden) cursor API handed out for benchmarks must tie its results to the buffer too
    for fn_, buf in (("parse_method", 'b"GET / HTTP/1.1\\r\\n".to_vec()'), ("parse_uri", 'b"/index.html HTTP/1.1\\r\\n".to_vec()')):
        pair("_benchable/%s/buffer-dropped" % fn_,
             " let f;\n {\n  let buf = %s;\n  let mut b = httparse::_benchable::Bytes::new(&buf);\n  f = httparse::_benchable::%s(&mut b).unwrap().unwrap();\n }\n show(f);" % (buf, fn_),
             " {\n  let buf = %s;\n  let mut b = httparse::_benchable::Bytes::new(&buf);\n  let f = httparse::_benchable::%s(&mut b).unwrap().unwrap();\n  show(f);\n }" % (buf, fn_))
        out.append({"name": "_benchable/%s/static-cursor" % fn_, "expect": "reject", "twin": "_benchable/%s/buffer-dropped~twin" % fn_,
                    "src": "#![allow(unused)]\nfn leak() -> &'static str {\n let buf = %s;\n let mut b: httparse::_benchable::Bytes<'static> = httparse::_benchable::Bytes::new(&buf);\n httparse::_benchable::%s(&mut b).unwrap().unwrap()\n}\nfn main() { println!(\"{}\", leak()); }\n" % (buf, fn_)})

    # usage patterns that must keep compiling
    acc = {
        "usage/readme": ' let mut headers = [httparse::EMPTY_HEADER; 64];\n let mut req = httparse::Request::new(&mut headers);\n let buf = b"GET /index.html HTTP/1.1\\r\\nHost";\n assert!(req.parse(buf).unwrap().is_partial());\n let buf = b"GET /index.html HTTP/1.1\\r\\nHost: example.domain\\r\\n\\r\\n";\n assert!(req.parse(buf).unwrap().is_complete());',
        "usage/grow-and-reparse": ' let mut data: Vec<u8> = Vec::new();\n let chunks: [&[u8]; 2] = [b"GET / HT", b"TP/1.1\\r\\n\\r\\n"];\n for c in chunks.iter() {\n  data.extend_from_slice(c);\n  let mut headers = [httparse::EMPTY_HEADER; 16];\n  let mut req = httparse::Request::new(&mut headers);\n  if let Ok(httparse::Status::Complete(n)) = req.parse(&data) { show(&n); show(&req.method); }\n }',
        "usage/fields-after-partial": ' let buf = b"GET /404 HTTP/1.1\\r\\nHost:";\n let mut headers = [httparse::EMPTY_HEADER; 16];\n let mut req = httparse::Request::new(&mut headers);\n let res = req.parse(buf).unwrap();\n if res.is_partial() { if let Some(p) = req.path { show(p); } }',
        "usage/headers-after-complete": ' let buf = b"HTTP/1.1 200 OK\\r\\nA: b\\r\\n\\r\\n";\n let mut headers = [httparse::EMPTY_HEADER; 16];\n let mut res = httparse::Response::new(&mut headers);\n let n = res.parse(buf).unwrap().unwrap();\n for h in res.headers.iter() { show(h.name); show(h.value); }\n show(&n);',
        "usage/uninit-flow": ' let buf = b"GET / HTTP/1.1\\r\\nA: b\\r\\n\\r\\n";\n let mut headers: [std::mem::MaybeUninit<httparse::Header>; 8] = unsafe { std::mem::MaybeUninit::uninit().assume_init() };\n let mut req = httparse::Request::new(&mut []);\n let st = req.parse_with_uninit_headers(buf, &mut headers);\n show(&st); show(&req.headers.len());',
        "usage/parse-headers": ' let buf = b"Host: foo.bar\\nAccept: */*\\n\\nblah blah";\n let mut headers = [httparse::EMPTY_HEADER; 4];\n let (n, hs) = httparse::parse_headers(buf, &mut headers).unwrap().unwrap();\n show(&n); show(hs[0].name);',
        "usage/field-outlives-request": ' let buf = b"GET /p HTTP/1.1\\r\\n\\r\\n".to_vec();\n let p;\n {\n  let mut headers = [httparse::EMPTY_HEADER; 4];\n  let mut req = httparse::Request::new(&mut headers);\n  let _ = req.parse(&buf);\n  p = req.path;\n }\n show(&p);',
        "usage/chunk-size": ' let buf = b"4\\r\\nRust\\r\\n0\\r\\n\\r\\n";\n show(&httparse::parse_chunk_size(buf));',
        "usage/config-builder": ' let buf = b"HTTP/1.1 200 OK\\r\\nFolded: a\\r\\n b\\r\\n\\r\\n";\n let mut headers = [httparse::EMPTY_HEADER; 4];\n let mut res = httparse::Response::new(&mut headers);\n let r = httparse::ParserConfig::default().allow_obsolete_multiline_headers_in_responses(true).parse_response(&mut res, buf);\n show(&r); show(res.headers[0].value);',
        "usage/static-buffer": ' static BUF: &[u8] = b"GET / HTTP/1.1\\r\\n\\r\\n";\n fn f() -> Option<&\'static str> { let mut h = [httparse::EMPTY_HEADER; 2]; let mut r = httparse::Request::new(&mut h); let _ = r.parse(BUF); r.method }\n show(&f());',
        "usage/request-reuse-same-buffer": ' let buf = b"GET / HTTP/1.1\\r\\nA: b\\r\\n\\r\\n";\n let mut headers = [httparse::EMPTY_HEADER; 4];\n let mut req = httparse::Request::new(&mut headers);\n let _ = req.parse(&buf[..10]);\n let _ = req.parse(&buf[..]);\n show(&req.method);',
    }
    for k, body in acc.items():
        out.append({"name": k, "src": prog(body), "expect": "accept", "twin": None})
    return out


def build_rmeta():
    """Type-check /repo's current tree and return (rmeta path, target dir to remove)."""
    tgt = tempfile.mkdtemp(prefix="vf-wit-")
    env = dict(os.environ, CARGO_NET_OFFLINE="true", CARGO_TARGET_DIR=tgt)
    env.pop("RUSTC_WORKSPACE_WRAPPER", None)
    env.pop("RUSTFLAGS", None)
    p = subprocess.run(["cargo", "check", "--offline", "--lib"], cwd=REPO, env=env, stdout=subprocess.PIPE, stderr=subprocess.STDOUT, text=True)
    if p.returncode != 0:
        shutil.rmtree(tgt, ignore_errors=True)
        raise RuntimeError("cargo check failed: " + p.stdout[-800:])
    deps = os.path.join(tgt, "debug", "deps")
    rm = [f for f in os.listdir(deps) if f.startswith("libhttparse-") and f.endswith(".rmeta")]
    if len(rm) != 1:
        shutil.rmtree(tgt, ignore_errors=True)
        raise RuntimeError("rmeta not found")
    return os.path.join(deps, rm[0]), tgt


def check_one(args):
    item, rmeta, wd = args
    src = os.path.join(wd, item["name"].replace("/", "__").replace("~", "_") + ".rs")
    with open(src, "w") as fh:
        fh.write(item["src"])
    out = src[:-3] + ".rmeta"
    p = subprocess.run(["rustc", "--edition", "2021", "--crate-type", "bin", "--emit=metadata", "--error-format=json", "-o", out,
                        "--extern", "httparse=" + rmeta, src], stdout=subprocess.PIPE, stderr=subprocess.PIPE, text=True)
    codes = []
    msgs = []
    for line in p.stderr.splitlines():
        try:
            d = json.loads(line)
        except ValueError:
            continue
        if d.get("level") == "error":
            c = (d.get("code") or {}).get("code")
            if c is None and d.get("message", "").startswith("aborting due to"):
                continue
            codes.append(c)
            msgs.append(d.get("message", "")[:160])
    return {"name": item["name"], "expect": item["expect"], "twin": item["twin"], "compiled": p.returncode == 0, "codes": codes, "messages": msgs[:2]}


def run_corpus():
    items = generate()
    rmeta, tgt = build_rmeta()
    wd = tempfile.mkdtemp(prefix="vf-witsrc-")
    try:
        with cf.ThreadPoolExecutor(max_workers=int(os.environ.get("VERIF_PROCS", "16"))) as ex:
            res = list(ex.map(check_one, [(it, rmeta, wd) for it in items]))
    finally:
        shutil.rmtree(tgt, ignore_errors=True)
        shutil.rmtree(wd, ignore_errors=True)
    return items, res


if __name__ == "__main__":
    items, res = run_corpus()
    bad = 0
    for r in res:
        ok = (r["expect"] == "accept" and r["compiled"]) or (r["expect"] == "reject" and not r["compiled"] and r["codes"] and all(c in BORROW_CODES for c in r["codes"]))
        if not ok:
            bad += 1
            print("UNEXPECTED", r)
    print(len(res), "programs", bad, "unexpected")
