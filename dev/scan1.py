import sys,json,os,collections,time,signal,traceback
sys.path.insert(0,'/verif')
from engine.mir import Program
import engine.explore as E
from engine import roots
from engine.monitors import ScannerContract
from engine import prims as PR
P=Program(json.load(open(os.environ.get('FACTS','/tmp/facts_b0.json'))))
scanners=[i for i in P.insts if i['local'] and i['npath'].startswith('simd::') and i['npath'].split('::')[-1] in PR.SCANNER_CLASSES and i['body']]
if sys.argv[1]=='list':
    print([s['npath'] for s in scanners]); sys.exit(0)
sc=[s for s in scanners if s['npath']==sys.argv[1]][0]
ex=E.Explorer(P,max_states=int(sys.argv[2]))
st=roots.bytes_state(ex.m,sc['id'])
name=sc['npath'].split('::')[-1]
st.mon=ScannerContract(PR.SCANNER_CLASSES[name],sc['npath'])
def h(sig,frm):
    traceback.print_stack(frm)
    print('states',ex.nstates,'trans',ex.ntrans, 'keys',len(ex.visited))
    c=collections.Counter()
    for k in ex.visited:
        fr=k[0][-1]; c[(P.insts[fr[0]]['npath'],fr[1])]+=1
    print(c.most_common(6))
    sys.exit(1)
signal.signal(signal.SIGALRM,h); signal.alarm(int(sys.argv[3]))
t=time.time()
try: ex.run([st])
except E.Budget: print('BUDGET')
print(sc['npath'],'states',ex.nstates,'results',len(ex.results),'keys',len(ex.visited),'%.1fs'%(time.time()-t))
seen=set()
for u in ex.unanalysable:
    k=(u['what'],u['where'])
    if k in seen: continue
    seen.add(k); print('  UNANALYSABLE',u['what'],'|',u['where'][:150],u['stack'][-2:])
seen=set()
for v in ex.m.violations:
    k=(v['rule'],v['detail'],v['where'])
    if k in seen: continue
    seen.add(k); print('  VIOLATION',v['rule'],v['detail'],'|',v['where'][:200], v['path'])
print('  obligations',{k:tuple(v[:2]) for k,v in ex.m.obl.items()})
