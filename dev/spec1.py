import sys,json,os,collections,time
sys.path.insert(0,'/verif')
from engine.mir import Program
import engine.explore as E
from engine import roots
from engine import spec as S
from engine import prims as PR
P=Program(json.load(open(os.environ.get('FACTS','/tmp/facts_b0.json'))))
for root in sys.argv[1].split(','):
    ex=E.Explorer(P,max_states=int(sys.argv[2]))
    st,kind=roots.initial_state(ex.m,root)
    st.mon=S.spec_for_root(root,kind)
    for kv in os.environ.get('PRESET','').split(','):
        if kv:
            k,v=kv.split('='); st.env['cfg:'+k]=(v=='1')
    callers={}
    for i in P.insts:
        if i['local'] and not i['npath'].startswith('simd::'):
            for c,t,_ in P.callees(i):
                if c is not None and P.insts[c]['npath'].startswith('simd::') and P.insts[c]['npath'].split('::')[-1] in PR.SCANNER_CLASSES: callers[P.insts[c]['npath']]=1
    if not os.environ.get('NOSUMM'): PR.install_scanner_summaries(ex.m,callers)
    t=time.time()
    try: ex.run([st])
    except E.Budget: print('BUDGET')
    print(root,'states',ex.nstates,'trans',ex.ntrans,'results',len(ex.results),'keys',len(ex.visited),'%.1fs'%(time.time()-t))
    seen=collections.Counter()
    for u in ex.unanalysable:
        k=(u['what'],u['where'][:120]); 
        if k not in seen: print('  UNANALYSABLE',u['what'],'|',u['where'][:150],u['stack'][-2:])
        seen[k]+=1
    seen=collections.Counter(); first={}
    for v in ex.m.violations:
        k=(v['rule'],v['detail'])
        seen[k]+=1; first.setdefault(k,v)
    for k,c in seen.most_common(int(os.environ.get('NV','12'))):
        v=first[k]
        print('  VIOLATION x%d'%c,v['rule'],'|',v['detail'],'|',v['where'][:100])
        if os.environ.get('PATHS'): print('       ',v['path'])
    if os.environ.get('VARY'):
        byhead=collections.defaultdict(list)
        for k in ex.visited:
            fr=k[0][-1]; byhead[(fr[0],fr[1],fr[2])].append(k)
        (h,ks)=max(byhead.items(),key=lambda x:len(x[1]))
        print('HEAD',P.insts[h[0]]['npath'],h[1:],len(ks))
        names=['frames','heap','cells','tape','eof','chain','gaps','cur_gap','w','env','rsyms','wfacts','mon','flags']
        for i,n in enumerate(names):
            vals=collections.Counter(k[i] for k in ks)
            print(n,len(vals))
            if n in('heap','env','gaps','chain','tape','cells','flags','w','rsyms') and len(vals)>1:
                for v,c in vals.most_common(5): print('     ',c,str(v)[:300])
        monv=collections.defaultdict(set)
        for k in ks:
            if k[12] is None: continue
            for j,x in enumerate(k[12]): monv[j].add(x)
        for j,xs in monv.items():
            if len(xs)>1: print('  mon[%d]'%j,len(xs),[str(x)[:200] for x in list(xs)[:5]])
        fr=collections.Counter()
        byl=collections.defaultdict(set)
        for k in ks:
            for f in k[0]:
                for l,v in f[3]: byl[(f[0],l)].add(v)
        for (fi,l),vs in byl.items():
            if len(vs)>1: print('  local',P.insts[fi]['npath'],l,len(vs),[str(v)[:150] for v in list(vs)[:4]])
