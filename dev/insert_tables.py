#!/usr/bin/env python3
"""Render the result files into the tables of DESIGN.md §8.8 (between the TABLES markers)."""
import json, os, subprocess, sys
V = os.path.dirname(os.path.dirname(os.path.abspath(__file__)))


def summary(path, metadir, benign=False):
    r = json.load(open(path))
    n = len(r)
    if benign:
        silent = sum(1 for v in r.values() if not any(c["fired"] for c in v["checks"].values()))
        return n, silent
    caught = 0
    for mid, v in r.items():
        mp = os.path.join(metadir, mid, "meta.json")
        target = json.load(open(mp)).get("property") if os.path.exists(mp) else mid.split("-")[0]
        if v["checks"].get(target, {}).get("fired"):
            caught += 1
    return n, caught


tables = subprocess.check_output([sys.executable, os.path.join(V, "dev", "catch_table.py")], text=True)
a = summary(os.path.join(V, "seeded", "results.json"), os.path.join(V, "seeded"))
b = summary(os.path.join(V, "selftest", "results.json"), os.path.join(V, "selftest", "mutants"))
c = summary(os.path.join(V, "selftest", "benign-results.json"), None, True)
d = summary(os.path.join(V, "selftest", "benign-indep-results.json"), None, True)
head = ("All 20 quick checks were run on every change (scratch worktree, `seeded/run_mutants.py`; commit of the matrix run: %s).\n\n"
        "* independent seeded changes: **%d of %d** caught by the check of the property they target;\n"
        "* own mutants: **%d of %d**;\n"
        "* own behaviour-preserving refactors: **%d of %d** pass all 20 checks silently;\n"
        "* independent behaviour-preserving refactors: **%d of %d** pass all 20 checks silently.\n\n"
        "“caught †” = the target check fires only through the fail-closed path (construct outside the fragment or exhausted budget). "
        "The last column lists every check that fires: besides the target these are either properties the change really breaks as well "
        "(a grammar change usually breaks framing, error kinds and header storage too) or checks that share an exploration that fails closed.\n\n"
        % (os.environ.get("MATRIX_COMMIT", "?"), a[1], a[0], b[1], b[0], c[1], c[0], d[1], d[0]))
p = os.path.join(V, "DESIGN.md")
s = open(p).read()
i, j = s.index("<!-- TABLES-BEGIN -->"), s.index("<!-- TABLES-END -->")
s = s[:i] + "<!-- TABLES-BEGIN -->\n" + head + tables + "\n" + s[j:]
open(p, "w").write(s)
print(a, b, c, d)
