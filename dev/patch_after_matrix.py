"""Engine edits prepared while a mutant matrix was running (apply once it has finished)."""
p = '/verif/engine/spec.py'
s = open(p).read()

# --- 1. independent framing detectors (C03): first empty line / first CRLF, driven by the consumed
#        bytes only; no knowledge of tokens, names or values
s = s.replace('''        self.last_end = None  # end of the most recently stored buffer slice (C04 ordering)
''', '''        self.last_end = None  # end of the most recently stored buffer slice (C04 ordering)
        # C03 framing detector: ('start'|'line0'|'in'|'cr0'|'lost') + fired position
        self.det = ("start",) if kind in ("request", "response") else (("line0",) if kind == "headers" else ("c0",))
        self.det_at = None
        self.dflt = None  # the default-options reference running alongside (configured roots only)
''')
s = s.replace('''                self.nstored, self.verdict, tuple(sorted(self.vals.items())), tuple(sorted(self.flags.items())), self.phase, min(self.nconsumed, 1),
                self.last_end)''', '''                self.nstored, self.verdict, tuple(sorted(self.vals.items())), tuple(sorted(self.flags.items())), self.phase, min(self.nconsumed, 1),
                self.last_end, self.det, self.det_at, self.dflt.q[0] == "ERR" if self.dflt is not None else None)''')
s = s.replace('''        if self.last_end is not None:
            self.last_end = floc(self.last_end)
        self.vals = {k: fv(v) for k, v in self.vals.items()}''', '''        if self.last_end is not None:
            self.last_end = floc(self.last_end)
        if self.det_at is not None:
            self.det_at = floc(self.det_at)
        self.vals = {k: fv(v) for k, v in self.vals.items()}''')
s = s.replace('''([self.last_end] if self.last_end else []):''', '''([self.last_end] if self.last_end else []) + ([self.det_at] if self.det_at else []):''')
s = s.replace('''    def clone(self):
        c = SpecMon.__new__(SpecMon)
        c.__dict__.update(self.__dict__)''', '''    def clone(self):
        c = SpecMon.__new__(SpecMon)
        c.__dict__.update(self.__dict__)
        if self.dflt is not None:
            c.dflt = self.dflt.clone()''')

# detector step + default reference step inside consume()
s = s.replace('''        self.nconsumed += 1
        if self.q[0] in ("DONE", "ERR"):''', '''        self.nconsumed += 1
        self.detect(m, st, cid, self.pos(st, i + 1))
        if self.dflt is not None and self.dflt.q[0] not in ("DONE", "ERR"):
            d = self.dflt
            if d.q[0] in ("VE", "WE"):
                d.resolve_lookahead_mask(st.cells[cid])
            if d.q[0] not in ("DONE", "ERR"):
                lab = d.classify(m, st, cid)
                d.pend = None
                d.step(m, st, cid, lab, self.pos(st, i), self.pos(st, i + 1))
                d.pend = None
        if self.q[0] in ("DONE", "ERR"):''')
s = s.replace('''    # the transition function ----------------------------------------------------------------------
    def step(self, m, st, cid, lab, here, after):''', '''    def resolve_lookahead_mask(self, mask):
        """Default reference only (no fold option there): nothing to resolve."""
        return

    def detect(self, m, st, cid, after):
        """C03 detector.  request/response: skip leading empty lines, then the start line up to its
        LF, then fire at the first line that is exactly LF or CR LF (leading SP/HTAB disregarded
        only with allow_space_before_first_header_name while no header is stored).  chunk: fire at
        the first CR LF."""
        d = self.det
        if d[0] in ("fired", "lost"):
            return
        mask = st.cells[cid]
        is_lf = not (mask & ~LF & FULL)
        no_lf = not (mask & LF)
        is_cr = not (mask & ~CR & FULL)
        no_cr = not (mask & CR)
        if not ((is_lf or no_lf) and (is_cr or no_cr)):
            self.det = ("lost",)
            return
        if d[0] == "c0":  # chunk: looking for CR LF
            self.det = ("c1",) if is_cr else ("c0",)
            return
        if d[0] == "c1":
            if is_lf:
                self.det, self.det_at = ("fired",), after
            else:
                self.det = ("c1",) if is_cr else ("c0",)
            return
        if d[0] == "start":  # leading empty lines
            if is_lf or is_cr:
                return
            self.det = ("sl",)
            return
        if d[0] == "sl":  # inside the start line
            if is_lf:
                self.det = ("line0",)
            return
        if d[0] == "line0":  # at a line start
            if is_lf:
                self.det, self.det_at = ("fired",), after
            elif is_cr:
                self.det = ("cr0",)
            else:
                is_ws = not (mask & ~WS & FULL)
                no_ws = not (mask & WS)
                if not (is_ws or no_ws):
                    self.det = ("lost",)
                elif is_ws and self.opt_peek(st, "sb") is True and self.nstored[0] == "int" and self.nstored[1] == 0:
                    pass  # disregarded leading whitespace
                elif is_ws and self.opt_peek(st, "sb") is None:
                    self.det = ("lost",)
                else:
                    self.det = ("in",)
            return
        if d[0] == "cr0":
            if is_lf:
                self.det, self.det_at = ("fired",), after
            else:
                self.det = ("cr0",) if is_cr else ("in",)
            return
        if d[0] == "in":
            if is_lf:
                self.det = ("line0",)
            return

    def opt_peek(self, st, name):
        o = self.opts.get(name, ("const", False))
        if o[0] == "const":
            return o[1]
        return st.env.get(o[1])

    # the transition function ----------------------------------------------------------------------
    def step(self, m, st, cid, lab, here, after):''')

# framing verdict at return (independent of the grammar reference)
s = s.replace('''        if kind == "partial" and not (st.eof and not st.tape):''', '''        self.check_framing(m, st, kind, payload)
        if kind == "partial" and not (st.eof and not st.tape):''')
s = s.replace('''    def check_partial_fields(self, m, st):
        pass
''', '''    def check_partial_fields(self, m, st):
        pass

    def check_framing(self, m, st, kind, payload):
        """C03 by the independent detector: Complete(n) exactly at the first empty line (chunk: first
        CR LF); no Partial when it is already in the buffer."""
        det, at = self.det, self.det_at
        # run the detector over the look-ahead the implementation has seen but not consumed
        k = 0
        sim = self.clone()
        while sim.det[0] not in ("fired", "lost") and k < len(st.tape):
            sim.detect(m, st, st.tape[k], ("B", ((st.cur_tok(), 1),), k + 1))
            k += 1
        det, at = sim.det, sim.det_at
        if det[0] == "lost":
            return
        if kind == "complete":
            if det[0] != "fired":
                m.violate(st, "framing:complete-without-empty-line", "Complete returned but no %s has been seen" % ("CR LF" if self.kind == "chunk" else "empty line after the start line"))
            n = payload["n"]
            t, c = sym_of(n)
            got = ("B",) + self.loc_add(("B", (("B", 1),), 0), t, c)
            if not self.same_pos(st, got, at):
                m.violate(st, "framing:offset", "Complete(n) with n = %s but the first %s ends at %s" % (m.show_sym(n), "CR LF" if self.kind == "chunk" else "empty line", self.show_loc(st, at)))
        elif kind == "partial":
            if det[0] == "fired":
                m.violate(st, "framing:partial-with-empty-line", "Partial returned although the %s is already in the buffer" % ("CR LF" if self.kind == "chunk" else "empty line ending the head"))
''')

# --- 2. no cascades: once the reference has a verdict, later events are not judged one by one
s = s.replace('''    def yield_slot(self, m, st, item):
        self.resolve_lookahead(m, st)''', '''    def yield_slot(self, m, st, item):
        if self.q[0] in ("DONE", "ERR"):
            self.slotq = item[1]
            return
        self.resolve_lookahead(m, st)''')
s = s.replace('''    def slots_exhausted(self, m, st, it):
        self.resolve_lookahead(m, st)''', '''    def slots_exhausted(self, m, st, it):
        if self.q[0] in ("DONE", "ERR"):
            return
        self.resolve_lookahead(m, st)''')
s = s.replace('''    def slot_store(self, m, st, loc, v):
        if self.pend is None:''', '''    def slot_store(self, m, st, loc, v):
        if self.q[0] in ("DONE", "ERR") and self.pend is None:
            self.slotq = None
            self.nstored = sym_add(self.nstored, mk_int(1, 64))
            return
        if self.pend is None:''')

# --- 3. record whether the default reference is still alive when a deviation is reported
s = s.replace('''    def bad(self, m, st, cls, detail):
        m.violate(st, "spec:%s:%s" % (cls, self.phase), detail)''', '''    def bad(self, m, st, cls, detail):
        st.flags["$dflt_alive"] = (self.dflt is None) or (self.dflt.q[0] != "ERR")
        m.violate(st, "spec:%s:%s" % (cls, self.phase), detail)''')
s = s.replace('''    for k, field in names.items():
        opts[k] = ("env", "cfg:" + field) if configured else ("const", False)
    return SpecMon(kind, root, opts)''', '''    for k, field in names.items():
        opts[k] = ("env", "cfg:" + field) if configured else ("const", False)
    mon = SpecMon(kind, root, opts)
    if configured and names:
        mon.dflt = SpecMon(kind, root, {k: ("const", False) for k in names})
    return mon''')
open(p, 'w').write(s)

p = '/verif/engine/absm.py'
s = open(p).read()
s = s.replace('''        cf = self.vcfg.setdefault(key, set())''', '''        self.vdef.setdefault(key, set()).add(bool(st.flags.get("$dflt_alive", True)))
        cf = self.vcfg.setdefault(key, set())''')
s = s.replace('''        self.vcfg = {}  # violation key -> set of tuples of options that were on''', '''        self.vcfg = {}  # violation key -> set of tuples of options that were on
        self.vdef = {}  # violation key -> {True, False}: default-options reference still alive / already rejecting''')
open(p, 'w').write(s)

p = '/verif/engine/runner.py'
s = open(p).read()
s = s.replace('''                                options_on=sorted(m.vcfg.get((v["rule"], v["detail"]), ()))) for v in m.violations],''', '''                                options_on=sorted(m.vcfg.get((v["rule"], v["detail"]), ())),
                                default_alive=sorted(m.vdef.get((v["rule"], v["detail"]), ()))) for v in m.violations],''')
open(p, 'w').write(s)

p = '/verif/props/common.py'
s = open(p).read()
s = s.replace('''    if rule.startswith("zero-copy:"):
        out.add("C04")''', '''    if rule.startswith("zero-copy:"):
        out.add("C04")
    if rule.startswith("framing:"):
        out.add("C03")''')
# C03 from the grammar product only for offsets; Partial/Complete disagreement is the detector's
s = s.replace('''            if "head is complete" in d or ("returned Complete" in d and "Partial" in d) or ("needs more input" in d and "Complete" in d):
                out.add("C03")''', '''''')
open(p, 'w').write(s)

p = '/verif/props/checks.py'
s = open(p).read()
s = s.replace('''                for on in v.get("options_on") or [()]:
                    allon = tuple(sorted(set(on) | set(preset_on)))
                    (nondef if allon else deflt).setdefault(k, dict(v, job=j, options=allon))''', '''                if v.get("default_alive") == [False]:
                    continue  # only on inputs the default configuration rejects: outside C15's claim
                for on in v.get("options_on") or [()]:
                    allon = tuple(sorted(set(on) | set(preset_on)))
                    (nondef if allon else deflt).setdefault(k, dict(v, job=j, options=allon))''')
open(p, 'w').write(s)
print("patched")
