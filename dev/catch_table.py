#!/usr/bin/env python3
"""Render seeded/results.json (+ selftest results) as the markdown tables of DESIGN.md §8.8."""
import json, os, sys

V = os.path.dirname(os.path.dirname(os.path.abspath(__file__)))


def table(path, metadir, benign=False):
    if not os.path.exists(path):
        return "(no results yet)\n"
    r = json.load(open(path))
    lines = []
    if benign:
        lines.append("| refactor | checks that stay silent | checks that alarm | why |")
        lines.append("|---|---|---|---|")
    else:
        lines.append("| change | target | what it does | target check | all checks that fire |")
        lines.append("|---|---|---|---|---|")
    for mid in sorted(r):
        v = r[mid]
        meta = {}
        mp = os.path.join(metadir, mid, "meta.json")
        if os.path.exists(mp):
            meta = json.load(open(mp))
        fired = [p for p, c in v["checks"].items() if c["fired"]]
        if benign:
            why = ""
            for p, c in v["checks"].items():
                if c["fired"] and c["first"]:
                    why = c["first"][0][:140].replace("|", "/")
                    break
            lines.append("| %s | %d | %s | %s |" % (mid, len(v["checks"]) - len(fired), ",".join(fired) or "—", why or "—"))
            continue
        target = meta.get("property") or mid.split("-")[0]
        desc = (meta.get("description") or meta.get("needs_to_manifest") or "")[:110].replace("|", "/").replace("\n", " ")
        if not v.get("applies", True):
            lines.append("| %s | %s | %s | does not apply | |" % (mid, target, desc))
            continue
        tc = v["checks"].get(target, {})
        only_fail_closed = bool(tc.get("fired")) and tc.get("first") and all(m.startswith("unanalysable") or m.startswith("engine-failure") for m in tc["first"])
        lines.append("| %s | %s | %s | %s | %s |" % (mid, target, desc, ("**caught**" + (" †" if only_fail_closed else "")) if target in fired else "MISSED", ",".join(fired)))
    return "\n".join(lines) + "\n"


if __name__ == "__main__":
    base = sys.argv[1] if len(sys.argv) > 1 else V
    print("#### Independent seeded changes (sub-agents)\n")
    print(table(os.path.join(base, "seeded", "results.json"), os.path.join(V, "seeded")))
    print("#### Own targeted mutants (selftest/mutants)\n")
    print(table(os.path.join(base, "selftest", "results.json"), os.path.join(V, "selftest", "mutants")))
    print("#### Behaviour-preserving refactors, own (selftest/benign) — checks must stay silent\n")
    print(table(os.path.join(base, "selftest", "benign-results.json"), os.path.join(V, "selftest", "benign"), benign=True))
    print("#### Behaviour-preserving refactors, independent sub-agents (selftest/benign-indep) — checks must stay silent\n")
    print(table(os.path.join(base, "selftest", "benign-indep-results.json"), os.path.join(V, "selftest", "benign-indep"), benign=True))
