#!/usr/bin/env python3
"""Generate my own targeted mutants (one edit each, from the 'Breaks it' lists of DESIGN.md §3) as
patches under /verif/selftest/mutants/<name>/patch.diff, in a scratch worktree that is removed
afterwards.  These complement the independent seeded changes under /verif/seeded: they aim at rule
instances no sub-agent happened to hit (aligned load, wrong dispatch arm, extra static, ...)."""
import json, os, subprocess, sys, shutil

OUT = os.path.join(os.path.dirname(os.path.abspath(__file__)), "mutants")
WT = "/tmp/selftest-wt"

# name -> (property, file, old, new, description)
EDITS = {
    "sse42-loop-bound-15": ("C01", "src/simd/sse42.rs", "while bytes.as_ref().len() >= 16 {\n        let advance = match_url_char_16_sse", "while bytes.as_ref().len() >= 15 {\n        let advance = match_url_char_16_sse",
                            "SSE4.2 URI loop enters the 16-byte load with 15 bytes left"),
    "sse42-aligned-load": ("C01", "src/simd/sse42.rs", "let LOW: __m128i = _mm_set1_epi8(0x21);\n\n    let dat = _mm_lddqu_si128(ptr as *const _);", "let LOW: __m128i = _mm_set1_epi8(0x21);\n\n    let dat = _mm_load_si128(ptr as *const _);",
                           "aligned 16-byte load on an arbitrarily aligned buffer (first occurrence: URI kernel)"),
    "sse42-uri-low-0x20": ("C12", "src/simd/sse42.rs", "let LOW: __m128i = _mm_set1_epi8(0x21);", "let LOW: __m128i = _mm_set1_epi8(0x20);", "SSE4.2 URI kernel accepts SP"),
    "avx2-andnot-swapped": ("C12", "src/simd/avx2.rs", "let bit = _mm256_andnot_si256(del, low);", "let bit = _mm256_andnot_si256(low, del);", "AVX2 URI kernel: andnot operands swapped"),
    "swar-uri-m-0x20": ("C12", "src/simd/swar.rs", "    // 33 <= (x != 127) <= 255\n    const M: u8 = 0x21;", "    // 33 <= (x != 127) <= 255\n    const M: u8 = 0x20;",
                        "SWAR URI block test no longer flags SP (the byte-wise re-check never sees it)"),
    "swar-trailing-tail-class": ("C12", "src/simd/swar.rs", "unsafe { bytes.advance(match_tail(is_header_name_token, bytes.as_ref())) };", "unsafe { bytes.advance(match_tail(is_header_value_token, bytes.as_ref())) };",
                                 "header-name tail handed to the header-value class"),
    "dispatch-sse42-calls-avx2": ("C13", "src/simd/runtime.rs", "SSE42 => sse42::match_uri_vectored(bytes),", "SSE42 => avx2::match_uri_vectored(bytes),", "runtime dispatch enters the AVX2 kernel on an SSE4.2-only CPU"),
    "static-call-counter": ("C18", "src/lib.rs", "    fn parse_with_config(&mut self, buf: &'b [u8], config: &ParserConfig) -> Result<usize> {\n        let headers = mem::take(&mut self.headers);\n\n        /* SAFETY",
                            "    fn parse_with_config(&mut self, buf: &'b [u8], config: &ParserConfig) -> Result<usize> {\n        static mut CALLS: usize = 0;\n        // SAFETY: statistics only\n        unsafe { CALLS += 1; }\n        let headers = mem::take(&mut self.headers);\n\n        /* SAFETY",
                            "a `static mut` call counter in Request::parse_with_config"),
    "request-no-restore": ("C17", "src/lib.rs", "                other => {\n                    // put the original headers back\n                    self.headers = &mut *(headers as *mut [Header<'_>]);\n                    other\n                },\n            }\n        }\n    }\n\n    /// Try to parse a buffer of bytes into the Request.",
                           "                other => {\n                    other\n                },\n            }\n        }\n    }\n\n    /// Try to parse a buffer of bytes into the Request.",
                           "Request::parse_with_config no longer puts the caller's array back on Partial/Err"),
    "shrink-plus-one": ("C01", "src/lib.rs", "let headers = unsafe { headers.get_unchecked_mut(..self.num_headers) };", "let headers = unsafe { headers.get_unchecked_mut(..self.num_headers + 1) };", "drop guard exposes one slot too many (unchecked index beyond the array when full)"),
    "method-shortcut": ("C18", "src/lib.rs", "        let orig_len = buf.len();\n        let mut bytes = Bytes::new(buf);\n        complete!(skip_empty_lines(&mut bytes));\n        let method = complete!(parse_method(&mut bytes));",
                        "        let orig_len = buf.len();\n        let mut bytes = Bytes::new(buf);\n        complete!(skip_empty_lines(&mut bytes));\n        if self.version.is_some() && self.path.is_none() {\n            return Err(Error::Version);\n        }\n        let method = complete!(parse_method(&mut bytes));",
                        "outcome depends on fields left by an earlier call"),
    "reason-0x80-off-by-one": ("C05", "src/lib.rs", "        } else if b >= 0x80 {\n            seen_obs_text = true;", "        } else if b > 0x80 {\n            seen_obs_text = true;", "byte 0x80 in a reason phrase reaches from_utf8_unchecked"),
    "version-slow-path-drops-dot": ("C11", "src/lib.rs", "    expect!(bytes.next() == b'1' => Err(Error::Version));\n    expect!(bytes.next() == b'.' => Err(Error::Version));\n    Ok(Status::Partial)", "    expect!(bytes.next() == b'1' => Err(Error::Version));\n    Ok(Status::Partial)",
                                    "short-buffer version path no longer checks the '.' (Partial with an unread, possibly wrong byte)"),
    "status-space-error-kind": ("C10", "src/lib.rs", "        space!(bytes or Error::Version);", "        space!(bytes or Error::Status);", "missing SP after the version literal in a response is reported as Status"),
    "request-reads-response-option": ("C15", "src/lib.rs", "                ignore_invalid_headers: config.ignore_invalid_headers_in_requests\n", "                ignore_invalid_headers: config.ignore_invalid_headers_in_requests || config.ignore_invalid_headers_in_responses\n",
                                      "a response-only option changes request parsing"),
    "uninit-variant-default-config": ("C16", "src/lib.rs", "        headers: &'headers mut [MaybeUninit<Header<'buf>>],\n    ) -> Result<usize> {\n        response.parse_with_config_and_uninit_headers(buf, self, headers)", "        headers: &'headers mut [MaybeUninit<Header<'buf>>],\n    ) -> Result<usize> {\n        response.parse_with_config_and_uninit_headers(buf, &ParserConfig::default(), headers)",
                                      "parse_response_with_uninit_headers ignores its configuration"),
    "alloc-in-error-path": ("C19", "src/lib.rs", "    let b = next!(bytes);\n    if !is_method_token(b) {\n        // First char must be a token char, it can't be a space which would indicate an empty token.\n        return Err(Error::Token);",
                            "    let b = next!(bytes);\n    if !is_method_token(b) {\n        // First char must be a token char, it can't be a space which would indicate an empty token.\n        #[cfg(feature = \"std\")]\n        { let seen: std::vec::Vec<u8> = bytes.as_ref().to_vec(); if seen.len() > 1_000_000 { return Ok(Status::Partial); } }\n        return Err(Error::Token);",
                            "heap allocation on the invalid-method error path"),
    "set-cursor-backward-after-fold": ("C20", "src/lib.rs", "                    Some(b' ') | Some(b'\\t') => {\n                        // The space will be consumed next iteration.\n                        continue $label;",
                                       "                    Some(b' ') | Some(b'\\t') => {\n                        // The space will be consumed next iteration.\n                        // SAFETY: start() is within the buffer\n                        unsafe { let s = $bytes.start(); $bytes.set_cursor(s); }\n                        continue $label;",
                                       "cursor rewound to the start of the value at every fold (quadratic re-scan)"),
    "chunk-count-16": ("C09", "src/lib.rs", "            b'0' ..= b'9' if in_chunk_size => {\n                if count > 15 {", "            b'0' ..= b'9' if in_chunk_size => {\n                if count > 16 {", "a 17th decimal digit is accepted (wraps in release, rejected by the debug guard)"),
    "empty-line-skipper-eats-two": ("C03", "src/lib.rs", "            Some(b'\\n') => {\n                // SAFETY: peeked and found `\\n`, so it's safe to bump 1 pos\n                unsafe {\n                    bytes.bump();\n                }\n            }",
                                    "            Some(b'\\n') => {\n                // SAFETY: peeked and found `\\n`, so it's safe to bump 1 pos\n                unsafe {\n                    bytes.bump();\n                }\n                if bytes.peek() == Some(b'\\t') {\n                    // SAFETY: peeked\n                    unsafe { bytes.bump(); }\n                }\n            }",
                                    "leading-empty-line skipper also swallows an HTAB after LF"),
    "header-name-keeps-colon": ("C08", "src/lib.rs", "            // SAFETY: previously bumped by 1 with next! -> always safe.\n            let bslice = unsafe { bytes.slice_skip(1) };", "            // SAFETY: previously bumped by 1 with next! -> always safe.\n            let bslice = unsafe { bytes.slice_skip(0) };",
                                "header name includes its delimiter"),
    "partial-after-peek": ("C11", "src/lib.rs", "    let hundreds = expect!(bytes.next() == b'0'..=b'9' => Err(Error::Status));", "    if bytes.len() < 3 {\n        return Ok(Status::Partial);\n    }\n    let hundreds = expect!(bytes.next() == b'0'..=b'9' => Err(Error::Status));",
                           "status code waits for three bytes before looking at any"),
}


def sh(cmd, cwd=None):
    p = subprocess.run(cmd, cwd=cwd, shell=True, stdout=subprocess.PIPE, stderr=subprocess.STDOUT, text=True)
    return p.returncode, p.stdout


def main():
    shutil.rmtree(WT, ignore_errors=True)
    sh("git -C /repo worktree prune")
    rc, out = sh("git -C /repo worktree add -q --detach %s HEAD" % WT)
    assert rc == 0, out
    made = []
    try:
        for name, (pid, f, old, new, desc) in sorted(EDITS.items()):
            sh("git checkout -- .", WT)
            p = os.path.join(WT, f)
            s = open(p).read()
            if s.count(old) != 1:
                print("SKIP %s: anchor found %d times" % (name, s.count(old)))
                continue
            open(p, "w").write(s.replace(old, new))
            rc, diff = sh("git diff -- src build.rs", WT)
            d = os.path.join(OUT, name)
            os.makedirs(d, exist_ok=True)
            open(os.path.join(d, "patch.diff"), "w").write(diff)
            rc, out = sh("CARGO_NET_OFFLINE=true cargo check --offline --lib 2>&1 | tail -3", WT)
            compiles = "error" not in out
            tests = None
            if compiles and "--tests" in sys.argv:
                rc, out = sh("CARGO_NET_OFFLINE=true cargo test --offline 2>&1 | grep -E '^test result|FAILED' | head -5", WT)
                tests = "FAILED" not in out and out.count("test result: ok") >= 3
            json.dump({"id": name, "property": pid, "source": "written by the check author from DESIGN.md 'Breaks it' lists (not independent)",
                       "description": desc, "compiles": compiles, "existing_suite_passes": tests}, open(os.path.join(d, "meta.json"), "w"), indent=1)
            made.append((name, pid, compiles, tests))
            print(name, pid, "compiles" if compiles else "DOES-NOT-COMPILE", "suite:%s" % tests)
    finally:
        sh("git -C /repo worktree remove --force %s" % WT)
    return made


if __name__ == "__main__":
    main()
