#!/usr/bin/env python3
"""Collect behaviour-preserving refactors written by independent sub-agents (/tmp/wtb/<R>/OUT/<X>)
into selftest/benign-indep/<R>-<X>/ (patch.diff, notes.md, meta.json)."""
import json, os, shutil, sys
V = os.path.dirname(os.path.dirname(os.path.abspath(__file__)))
src = sys.argv[1]
for r in sys.argv[2:]:
    out = os.path.join(src, r, "OUT")
    for x in sorted(os.listdir(out)):
        d = os.path.join(out, x)
        if not os.path.exists(os.path.join(d, "patch.diff")):
            continue
        dst = os.path.join(V, "selftest", "benign-indep", "%s-%s" % (r, x))
        os.makedirs(dst, exist_ok=True)
        shutil.copy(os.path.join(d, "patch.diff"), dst)
        if os.path.exists(os.path.join(d, "notes.md")):
            shutil.copy(os.path.join(d, "notes.md"), dst)
        notes = open(os.path.join(dst, "notes.md")).read() if os.path.exists(os.path.join(dst, "notes.md")) else ""
        first = next((l.strip("# ").strip() for l in notes.splitlines() if l.strip()), "")
        json.dump({"id": "%s-%s" % (r, x), "property": "none", "kind": "behaviour-preserving refactor",
                   "source": "independent sub-agent given an area of the code and asked for realistic behaviour-preserving maintenance changes",
                   "description": first[:200]}, open(os.path.join(dst, "meta.json"), "w"), indent=1)
        print(dst)
