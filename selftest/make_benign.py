#!/usr/bin/env python3
"""Behaviour-preserving refactors of httparse (one each) under /verif/selftest/benign/<name>/patch.diff:
the checks must stay silent on them.  Where one is outside the modelled fragment the check fails
closed ('unanalysable'); those are listed in DESIGN.md as the known brittleness of the approach."""
import json, os, subprocess, sys, shutil

OUT = os.path.join(os.path.dirname(os.path.abspath(__file__)), "benign")
WT = "/tmp/selftest-wt"

EDITS = {
    "skip-spaces-while-let": ("src/lib.rs",
        "    loop {\n        let b = bytes.peek();\n        match b {\n            Some(b' ') => {\n                // SAFETY: peeked and found ` `, so it's safe to bump 1 pos\n                unsafe { bytes.bump() };\n            }\n            Some(..) => {\n                bytes.slice();\n                return Ok(Status::Complete(()));\n            }\n            None => return Ok(Status::Partial),\n        }\n    }",
        "    while let Some(b) = bytes.peek() {\n        if b != b' ' {\n            bytes.slice();\n            return Ok(Status::Complete(()));\n        }\n        // SAFETY: peeked and found ` `, so it's safe to bump 1 pos\n        unsafe { bytes.bump() };\n    }\n    Ok(Status::Partial)",
        "skip_spaces rewritten as while-let"),
    "reason-branch-order": ("src/lib.rs",
        "        } else if !(b == 0x09 || b == b' ' || (0x21..=0x7E).contains(&b) || b >= 0x80) {\n            return Err(Error::Status);\n        } else if b >= 0x80 {\n            seen_obs_text = true;\n        }",
        "        } else if b >= 0x80 {\n            seen_obs_text = true;\n        } else if !(b == 0x09 || (b' '..=0x7E).contains(&b)) {\n            return Err(Error::Status);\n        }",
        "parse_reason: obs-text test first, class test simplified to an equivalent range"),
    "code-u16-from": ("src/lib.rs",
        "    Ok(Status::Complete((hundreds - b'0') as u16 * 100 +\n        (tens - b'0') as u16 * 10 +\n        (ones - b'0') as u16))",
        "    let digit = |b: u8| u16::from(b - b'0');\n    Ok(Status::Complete(digit(ones) + 10 * digit(tens) + 100 * digit(hundreds)))",
        "parse_code: closure + u16::from, terms reordered"),
    "token-loop-peek": ("src/lib.rs",
        "    loop {\n        let b = next!(bytes);\n        if b == b' ' {\n            return Ok(Status::Complete(\n                // SAFETY: all bytes up till `i` must have been `is_method_token` and therefore also utf-8.\n                unsafe { str::from_utf8_unchecked(bytes.slice_skip(1)) },\n            ));\n        } else if !is_method_token(b) {\n            return Err(Error::Token);\n        }\n    }",
        "    loop {\n        match bytes.next() {\n            None => return Ok(Status::Partial),\n            Some(b' ') => {\n                // SAFETY: all bytes up till `i` must have been `is_method_token` and therefore also utf-8.\n                let token = unsafe { str::from_utf8_unchecked(bytes.slice_skip(1)) };\n                return Ok(Status::Complete(token));\n            }\n            Some(b) if is_method_token(b) => continue,\n            Some(_) => return Err(Error::Token),\n        }\n    }",
        "parse_token: explicit match instead of next! macro"),
    "version-match-bytes": ("src/lib.rs",
        "        return match u64::from_ne_bytes(eight) {\n            H10 => Ok(Status::Complete(0)),\n            H11 => Ok(Status::Complete(1)),\n            _ => Err(Error::Version),\n        };",
        "        let _ = (H10, H11);\n        return match &eight {\n            b\"HTTP/1.0\" => Ok(Status::Complete(0)),\n            b\"HTTP/1.1\" => Ok(Status::Complete(1)),\n            _ => Err(Error::Version),\n        };",
        "parse_version: byte-string patterns instead of u64 compare"),
    "newline-helper-fn": ("src/lib.rs",
        "        self.version = Some(complete!(parse_version(&mut bytes)));\n        newline!(bytes);\n\n        let len = orig_len - bytes.len();",
        "        self.version = Some(complete!(parse_version(&mut bytes)));\n        complete!(request_line_end(&mut bytes));\n\n        let len = orig_len - bytes.len();",
        "request-line terminator moved into a helper function (appended below)"),
    "trim-manual-loop": ("src/lib.rs",
        "        let header_value = if let Some(last_visible) = value_slice\n            .iter()\n            .rposition(|b| *b != b' ' && *b != b'\\t' && *b != b'\\r' && *b != b'\\n')\n        {\n            // There is at least one non-whitespace character.\n            &value_slice[0..last_visible+1]\n        } else {\n            // There is no non-whitespace character. This can only happen when value_slice is\n            // empty.\n            value_slice\n        };",
        "        let mut end = value_slice.len();\n        while end > 0 && matches!(value_slice[end - 1], b' ' | b'\\t' | b'\\r' | b'\\n') {\n            end -= 1;\n        }\n        let header_value = &value_slice[..end];",
        "trailing-whitespace trim as a manual backward loop (expected: outside the modelled fragment)"),
    "chunk-arms-merged": ("src/lib.rs",
        "            b'a' ..= b'f' if in_chunk_size => {\n                if count > 15 {\n                    return Err(InvalidChunkSize);\n                }\n                count += 1;\n                if cfg!(debug_assertions) && size > (u64::MAX / RADIX) {\n                    return Err(InvalidChunkSize);\n                }\n                size *= RADIX;\n                size += (b + 10 - b'a') as u64;\n            }\n            b'A' ..= b'F' if in_chunk_size => {\n                if count > 15 {\n                    return Err(InvalidChunkSize);\n                }\n                count += 1;\n                if cfg!(debug_assertions) && size > (u64::MAX / RADIX) {\n                    return Err(InvalidChunkSize);\n                }\n                size *= RADIX;\n                size += (b + 10 - b'A') as u64;\n            }",
        "            b'a' ..= b'f' | b'A' ..= b'F' if in_chunk_size => {\n                if count > 15 {\n                    return Err(InvalidChunkSize);\n                }\n                count += 1;\n                if cfg!(debug_assertions) && size > (u64::MAX / RADIX) {\n                    return Err(InvalidChunkSize);\n                }\n                size *= RADIX;\n                size += ((b | 0x20) + 10 - b'a') as u64;\n            }",
        "hex letter arms merged with case folding"),
    "peek-via-first": ("src/iter.rs",
        "        if self.cursor < self.end {\n            // SAFETY:  bounds checked\n            Some(unsafe { *self.cursor })\n        } else {\n            None\n        }\n    }\n\n    /// Peek at byte `n` ahead of cursor",
        "        self.as_ref().first().copied()\n    }\n\n    /// Peek at byte `n` ahead of cursor",
        "Bytes::peek through the safe slice API"),
    "swar-loop-reshape": ("src/simd/swar.rs",
        "pub fn match_uri_vectored(bytes: &mut Bytes) {\n    loop {\n        if let Some(bytes8) = bytes.peek_n::<ByteBlock>(BLOCK_SIZE) {\n            let n = match_uri_char_8_swar(bytes8);\n            // SAFETY: using peek_n to retrieve the bytes ensures that there are at least n more bytes\n            // in `bytes`, so calling `advance(n)` is safe.\n            unsafe {\n                bytes.advance(n);\n            }\n            if n == BLOCK_SIZE {\n                continue;\n            }\n        }",
        "pub fn match_uri_vectored(bytes: &mut Bytes) {\n    loop {\n        while let Some(bytes8) = bytes.peek_n::<ByteBlock>(BLOCK_SIZE) {\n            let n = match_uri_char_8_swar(bytes8);\n            // SAFETY: using peek_n to retrieve the bytes ensures that there are at least n more bytes\n            // in `bytes`, so calling `advance(n)` is safe.\n            unsafe {\n                bytes.advance(n);\n            }\n            if n != BLOCK_SIZE {\n                break;\n            }\n        }",
        "SWAR URI scanner: inner while-let over full blocks"),
}
APPEND = {
    "newline-helper-fn": "\n#[inline]\nfn request_line_end(bytes: &mut Bytes<'_>) -> Result<()> {\n    newline!(bytes);\n    Ok(Status::Complete(()))\n}\n",
}


def sh(cmd, cwd=None):
    p = subprocess.run(cmd, cwd=cwd, shell=True, stdout=subprocess.PIPE, stderr=subprocess.STDOUT, text=True)
    return p.returncode, p.stdout


def main():
    shutil.rmtree(WT, ignore_errors=True)
    sh("git -C /repo worktree prune")
    rc, out = sh("git -C /repo worktree add -q --detach %s HEAD" % WT)
    assert rc == 0, out
    try:
        for name, (f, old, new, desc) in sorted(EDITS.items()):
            sh("git checkout -- .", WT)
            p = os.path.join(WT, f)
            s = open(p).read()
            if s.count(old) != 1:
                print("SKIP %s: anchor found %d times" % (name, s.count(old)))
                continue
            s = s.replace(old, new)
            if name in APPEND:
                i = s.index("#[cfg(test)]\nmod tests {")
                s = s[:i] + APPEND[name].lstrip("\n") + "\n" + s[i:]
            open(p, "w").write(s)
            rc, diff = sh("git diff -- src build.rs", WT)
            rc, out = sh("CARGO_NET_OFFLINE=true cargo test --offline 2>&1 | grep -E '^test result|FAILED|^error' | head -6", WT)
            ok = "FAILED" not in out and "error" not in out and out.count("test result: ok") >= 3
            if not ok:
                print("REJECTED %s (suite does not pass): %s" % (name, out[-300:]))
                continue
            d = os.path.join(OUT, name)
            os.makedirs(d, exist_ok=True)
            open(os.path.join(d, "patch.diff"), "w").write(diff)
            json.dump({"id": name, "property": "none", "kind": "behaviour-preserving refactor", "description": desc, "existing_suite_passes": True},
                      open(os.path.join(d, "meta.json"), "w"), indent=1)
            print(name, "ok")
    finally:
        sh("git -C /repo worktree remove --force %s" % WT)


if __name__ == "__main__":
    main()
