"""Structural rules on the resolved program (DESIGN.md §2.5): call-graph, read-set, static and
build-lattice queries.  No abstract interpretation here."""
import json
import os
import re
import subprocess
import tempfile
import shutil
import concurrent.futures as cf

from .common import Check, R, F, Program, strip_lines
from engine import roots as ROOTS
from engine import mir as M

ENTRY_PATHS = {name: path for name, (path, kind) in ROOTS.ENTRY_POINTS.items()}


def entry_insts(prog):
    out = {}
    for name in ROOTS.ENTRY_POINTS:
        try:
            inst, kind = ROOTS.find_root(prog, name)
            out[name] = inst
        except Exception:
            out[name] = None
    return out


def cone(prog, inst, local_only=False):
    follow = (lambda i: i["local"]) if local_only else (lambda i: True)
    return [prog.insts[i] for i in prog.reachable([inst["id"]], follow)]


def find_cycle(prog, insts):
    ids = {i["id"] for i in insts}
    color = {}
    def dfs(n, stack):
        color[n] = 1
        for c, t, _ in prog.callees(prog.insts[n]):
            if c is None or c not in ids:
                continue
            if color.get(c) == 1:
                return stack + [n, c]
            if c not in color:
                r = dfs(c, stack + [n])
                if r:
                    return r
        color[n] = 2
        return None
    for i in ids:
        if i not in color:
            r = dfs(i, [])
            if r:
                return r
    return None


# ---- C01 (structure) --------------------------------------------------------------------------
def c01_structure(c, tier):
    prog = Program(F.get_facts("B0", "debug"))
    ents = entry_insts(prog)
    for name, inst in ents.items():
        c.oblige(inst is not None, "anchor-missing|%s" % name, {"rule": "anchor-missing", "detail": "entry point %s not found" % name})
    allc = []
    for inst in ents.values():
        if inst is not None:
            allc += cone(prog, inst)
    uniq = {i["id"]: i for i in allc}.values()
    cyc = find_cycle(prog, list(uniq))
    c.oblige(cyc is None, "recursion|%s" % ("->".join(prog.insts[i]["npath"] for i in cyc) if cyc else ""),
             {"rule": "recursion", "detail": "call cycle: %s" % (" -> ".join(prog.insts[i]["npath"] for i in cyc) if cyc else "")})
    c.oblige(not prog.f["unresolved"], "unresolved-call|%s" % json.dumps(prog.f["unresolved"][:3]),
             {"rule": "unresolved-call", "detail": "calls the compiler could not resolve statically: %s" % prog.f["unresolved"][:5]})
    c.coverage["call_graph"] = {"instances_in_cone": len(list(uniq)), "unresolved_or_indirect_calls": len(prog.f["unresolved"]), "cycle": cyc}


# ---- C18 / C13: statics --------------------------------------------------------------------------
def mutable_statics(prog):
    out = []
    for s in prog.statics:
        if not s or s.get("foreign"):
            continue
        if s.get("local") and (s.get("mutable") or not s.get("freeze", True)):
            out.append(s)
    return out


def c18_statics(c, tier):
    prog = Program(F.get_facts("B0", "debug"))
    ms = mutable_statics(prog)
    for s in ms:
        t = prog.types[s["ty"]]["s"]
        ok = (not s["mutable"]) and "Atomic" in t
        c.oblige(ok, "mutable-static|%s" % s["path"], {"rule": "mutable-static", "detail": "static %s: %s is writable shared state other than an atomic feature cache" % (s["path"], t)})
    c.coverage["writable_statics"] = [s["path"] for s in ms]


# ---- C19 -----------------------------------------------------------------------------------------
ALLOWED_NONCORE = ("std_detect::detect::",)


def c19(tier):
    c = Check("C19", tier)
    cfgs = [("B0", "release"), ("B4", "release")]
    if tier == "thorough":
        cfgs += [("B1", "release"), ("B2", "release"), ("B3", "release"), ("B5", "release"), ("B0", "debug"), ("B4", "debug")]
    cov = []
    for cfg, prof in cfgs:
        try:
            prog = Program(F.get_facts(cfg, prof))
        except F.BuildError as e:
            c.oblige(False, "build-failed|%s-%s" % (cfg, prof), {"rule": "build-failed", "detail": "configuration %s-%s does not build: %s" % (cfg, prof, e.log[-800:])})
            continue
        ents = entry_insts(prog)
        ncall = 0
        crates = {}
        # std's panic entry (`panic!("literal")`, `debug_assert!(c, "overflow")` in this edition) and what
        # lies below it: whether such a call can be *reached* is decided by the exploration (panic
        # clause below, C01), not by the call graph
        below_panic = set()
        for pi in prog.insts:
            if pi["npath"] == "std::rt::begin_panic":
                below_panic |= {x["id"] for x in cone(prog, pi)}
        for name, inst in ents.items():
            c.oblige(inst is not None, "anchor-missing|%s|%s" % (cfg, name), {"rule": "anchor-missing", "detail": "entry point %s not found in %s" % (name, cfg)})
            if inst is None:
                continue
            for i in cone(prog, inst):
                crates[i["crate"]] = crates.get(i["crate"], 0) + 1
                ncall += 1
                ok = i["crate"] in (prog.f["crate"], "core") or any(i["npath"].startswith(a) for a in ALLOWED_NONCORE)
                if not ok and i["id"] in below_panic:
                    ok = True
                c.oblige(ok, "non-core-callee|%s|%s" % (name, i["npath"]),
                         {"rule": "non-core-callee", "detail": "%s reaches %s (crate %s) in configuration %s-%s" % (name, i["name"], i["crate"], cfg, prof), "where": M.span_str(i.get("span"))})
                b = i["body"]
                if b and i["local"]:
                    for li, l in enumerate(b["locals"]):
                        t = prog.types[l["ty"]]
                        bad = type_uses_alloc(prog, l["ty"], set())
                        c.oblige(bad is None, "alloc-type|%s|%s|%s" % (name, i["npath"], bad),
                                 {"rule": "alloc-type", "detail": "%s: local of type %s involves allocating type %s" % (i["npath"], t["s"], bad)})
        c.oblige(not prog.f["unresolved"], "unresolved-call|%s" % cfg, {"rule": "unresolved-call", "detail": "unresolved/indirect calls: %s" % prog.f["unresolved"][:3]})
        if cfg == "B4":
            bad = [x for x in prog.f["crates"] if x in ("std", "alloc")]
            c.oblige(not bad, "no_std-links-%s" % ",".join(bad), {"rule": "no_std-dependency", "detail": "the --no-default-features build depends on crate(s) %s" % bad})
            c.oblige("feature=\"std\"" not in prog.cfgs, "no_std-feature", {"rule": "no_std-feature", "detail": "std feature active in the no-default-features build"})
        cov.append({"config": cfg + "-" + prof, "instances_in_cones": ncall, "callee_crates": crates, "linked_crates": prog.f["crates"]})
    # every no_std switch combination must type-check against core alone
    jobs = [j for j in lattice_jobs() if not j["std"]]
    with cf.ThreadPoolExecutor(max_workers=int(os.environ.get("VERIF_PROCS", "16"))) as ex:
        lres = list(ex.map(run_lattice_job, jobs))
    for r in lres:
        j = r["job"]
        name = "no_std,disable_simd=%s,disable_compiletime=%s,target_feature=%s" % (j["disable_simd"], j["disable_compiletime"], j["target_feature"] or "-")
        c.oblige(r["built"], "no_std-combo-does-not-build|%s" % name, {"rule": "no_std-combo-does-not-build", "detail": "the std-less build with switches %s does not compile: %s" % (name, r.get("log", "")[-500:])})
        if r["built"]:
            bad = [x for x in r["crates"] if x in ("std", "alloc")]
            c.oblige(not bad, "no_std-links|%s" % name, {"rule": "no_std-dependency", "detail": "combination %s links %s" % (name, bad)})
    c.coverage["no_std_switch_combinations"] = len(lres)
    c.coverage["configs"] = cov
    # a reachable panic allocates under std (payload, message formatting in the default hook): the
    # panic/assert obligations of the entry-point explorations are a clause of this property too.
    # Only found panics count here; paths the exploration could not follow are C01's alarm.
    from . import checks as CH
    from .common import violation_key
    try:
        jobs, results = CH.machine_jobs(tier, kinds=("entry",))
    except F.BuildError as e:
        jobs, results = [], []
    npaths = 0
    for j, r in zip(jobs, results):
        if not r or not r.get("ok"):
            continue
        npaths += r.get("results", 0)
        for v in r.get("violations", []):
            if v["rule"] == "panic-reachable" or v["rule"].startswith("obligation:assert:") or v["rule"] in ("unreachable-reached", "division-by-zero"):
                c.violation("panic|" + violation_key(v, j), dict(v, job=j, note="a panic is reachable from an entry point: under std the panic runtime allocates"))
    c.obligations += npaths
    c.discharged += npaths
    c.coverage["abstract_paths_without_panic"] = npaths
    c.coverage["explanation"] = ("crate of every instance in the transitive monomorphic cone of the entry points is the crate itself or core (plus std_detect "
                                 "feature probes); no local of an allocating type; no_std build has no std/alloc dependency; no panic or failed assertion "
                                 "reachable on any explored abstract path of the entry points (a panic allocates under std)")
    for x in cov[:3]:
        c.sample(x)
    return c.finish()


def type_uses_alloc(prog, tid, seen):
    if tid in seen:
        return None
    seen.add(tid)
    t = prog.types[tid]
    if t["k"] == "adt":
        if t.get("crate") in ("alloc",) or t["path"].startswith("std::collections") or t["path"].startswith("std::vec") or t["path"].startswith("std::string") \
                or t["path"].startswith("std::boxed") or t["path"].startswith("std::rc") or t["path"].startswith("std::sync::Arc"):
            return t["s"]
        for v in t["variants"]:
            for f in v["fields"]:
                r = type_uses_alloc(prog, f["ty"], seen)
                if r:
                    return r
    elif t["k"] in ("ref", "ptr"):
        return type_uses_alloc(prog, t["to"], seen)
    elif t["k"] in ("array", "slice"):
        return type_uses_alloc(prog, t["elem"], seen)
    elif t["k"] == "tuple" or t["k"] == "closure":
        for f in t["fields"]:
            r = type_uses_alloc(prog, f["ty"], seen)
            if r:
                return r
    return None


SCANNERS = ("match_uri_vectored", "match_header_value_vectored", "match_header_name_vectored")


# ---- C15 (ii): option read-sets -----------------------------------------------------------------
REQ_FIELDS = {"allow_multiple_spaces_in_request_line_delimiters", "allow_space_before_first_header_name", "ignore_invalid_headers_in_requests"}
RESP_FIELDS = {"allow_multiple_spaces_in_response_status_delimiters", "allow_spaces_after_header_name_in_responses",
               "allow_obsolete_multiline_headers_in_responses", "allow_space_before_first_header_name", "ignore_invalid_headers_in_responses"}


def config_reads(prog, inst):
    """Names of ParserConfig fields read by one instance body (field projections on the type)."""
    out = set()
    whole = False
    b = inst["body"]
    if not b:
        return out, whole
    ptids = [i for i, t in enumerate(prog.types) if t and t["k"] == "adt" and M.tail_is(M.norm_path(t["path"]), "ParserConfig")]
    if not ptids:
        return out, whole
    pt = prog.types[ptids[0]]
    names = [f["name"] for f in pt["variants"][0]["fields"]]

    def place_ty_walk(p):
        tid = b["locals"][p["l"]]["ty"]
        for pe in p["pr"]:
            t = prog.types[tid]
            if pe[0] == "deref":
                tid = t["to"]
            elif pe[0] == "field":
                if tid in ptids:
                    out.add(names[pe[1]])
                tid = pe[2]
            elif pe[0] in ("index", "cidx"):
                tid = t["elem"]
        return tid

    def walk(o, reading=True):
        nonlocal whole
        if isinstance(o, dict):
            if "l" in o and "pr" in o and isinstance(o.get("pr"), list):
                tid = place_ty_walk(o)
                return
            for k, v in o.items():
                walk(v)
        elif isinstance(o, list):
            for v in o:
                walk(v)

    for bl in b["blocks"]:
        for s in bl["stmts"]:
            if s["k"] == "assign":
                walk(s["r"])
                # a whole-struct copy of a ParserConfig counts as reading every field
                r = s["r"]
                if r["k"] == "use" and r["o"]["k"] in ("copy", "move"):
                    tid = place_ty_walk(r["o"]["p"])
                    if tid in ptids:
                        whole = True
        walk(bl["term"])
    return out, whole


def c15_readsets(c, tier):
    """Syntactic option read-sets of the request and response cones.  Returns {entry: fields of the
    other kind that are read somewhere in its cone}.  A read alone decides nothing (the value may be
    discarded): the C15 check alarms on such a field only if the exploration also shows a branch
    that depends on it and a result that differs with it."""
    prog = Program(F.get_facts("B0", "debug"))
    ents = entry_insts(prog)
    cov, other = {}, {}
    for name, inst in ents.items():
        if inst is None:
            continue
        kind = ROOTS.ENTRY_POINTS[name][1]
        if kind not in ("request", "response"):
            continue
        reads = set()
        for i in cone(prog, inst, local_only=True):
            r, whole = config_reads(prog, i)
            if whole and not (i["npath"].startswith("<ParserConfig as") or "clone" in i["npath"].lower() or "default" in i["npath"].lower()):
                reads |= set(REQ_FIELDS | RESP_FIELDS)
            reads |= r
        allowed = REQ_FIELDS if kind == "request" else RESP_FIELDS
        cov[name] = sorted(reads)
        other[name] = sorted(reads - allowed)
        c.obligations += 1
        c.discharged += 1
    c.coverage["option_fields_read"] = cov
    c.coverage["other_kind_fields_read_syntactically"] = other
    return other


# ---- C20 ------------------------------------------------------------------------------------------------
def c20_structure(c, tier):
    prog = Program(F.get_facts("B0", "debug"))
    ents = entry_insts(prog)
    seen = {}
    for name, inst in ents.items():
        if inst is None:
            continue
        for i in cone(prog, inst, local_only=True):
            seen[i["id"]] = i
    setters = [i for i in seen.values() if i["npath"].endswith("::set_cursor")]
    c.oblige(not setters, "set_cursor-reachable", {"rule": "set_cursor-reachable", "detail": "Bytes::set_cursor (arbitrary repositioning) is reachable from a parse entry point"})
    # writers of Bytes.cursor: only methods of Bytes itself
    writers = set()
    btids = [i for i, t in enumerate(prog.types) if t and t["k"] == "adt" and M.tail_is(M.norm_path(t["path"]), "Bytes")]
    c.oblige(bool(btids), "anchor-missing|iter::Bytes", {"rule": "anchor-missing", "detail": "type iter::Bytes not found"})
    if btids:
        names = [f["name"] for f in prog.types[btids[0]]["variants"][0]["fields"]]
        from engine.absm import bytes_roles
        roles = bytes_roles(prog)
        c.oblige(roles is not None, "anchor-missing|Bytes-pointers", {"rule": "anchor-missing", "detail": "the three pointers of the cursor type could not be identified"})
        cursor_idx = roles["cursor"] if roles else -1
        for i in seen.values():
            b = i["body"]
            if not b:
                continue
            for bl in b["blocks"]:
                for s in bl["stmts"]:
                    if s["k"] != "assign" or not s["p"]["pr"]:
                        continue
                    tid = b["locals"][s["p"]["l"]]["ty"]
                    for pe in s["p"]["pr"]:
                        t = prog.types[tid]
                        if pe[0] == "deref":
                            tid = t["to"]
                        elif pe[0] == "field":
                            if tid in btids and pe[1] == cursor_idx and pe is s["p"]["pr"][-1]:
                                writers.add(i["npath"])
                            tid = pe[2]
                        elif pe[0] in ("index", "cidx"):
                            tid = t["elem"]
        bad = sorted(w for w in writers if not re.search(r"(^|::|<)Bytes(::|<| as )", w))
        c.oblige(not bad, "cursor-writer|%s" % ",".join(bad), {"rule": "cursor-writer", "detail": "the cursor is assigned outside iter::Bytes: %s" % bad})
        c.coverage["cursor_writers"] = sorted(writers)
    # Bytes::new call sites in the cone: once per entry point
    for name, inst in ents.items():
        if inst is None or ROOTS.ENTRY_POINTS[name][1] == "":
            continue
        n = 0
        for i in cone(prog, inst, local_only=True):
            for cal, t, _ in prog.callees(i):
                if cal is not None and M.tail_is(prog.insts[cal]["npath"], "Bytes::new"):
                    n += 1
        c.oblige(n == 1, "bytes-new-count|%s|%d" % (name, n), {"rule": "bytes-new-count", "detail": "%s constructs %d cursors over the input (expected exactly 1)" % (name, n)})


# ---- C13 (a): build lattice -------------------------------------------------------------------------------
def lattice_jobs():
    jobs = []
    for std in (True, False):
        for dis in (False, True):
            for disct in (False, True):
                for tf in ("", "+sse4.2", "+avx2", "+sse4.2,+avx2"):
                    jobs.append({"std": std, "disable_simd": dis, "disable_compiletime": disct, "target_feature": tf})
    return jobs


def run_lattice_job(j):
    tgt = tempfile.mkdtemp(prefix="vf-lat-")
    out = tempfile.mktemp(prefix="vf-lat-", suffix=".json")
    try:
        envx = {}
        if j["disable_simd"]:
            envx["CARGO_CFG_HTTPARSE_DISABLE_SIMD"] = "1"
        if j["disable_compiletime"]:
            envx["CARGO_CFG_HTTPARSE_DISABLE_SIMD_COMPILETIME"] = "1"
        flags = ("-C target-feature=" + j["target_feature"]) if j["target_feature"] else ""
        env = F.cargo_env(flags, envx, "debug")
        env["RUSTC_WORKSPACE_WRAPPER"] = F.DRIVER
        env["MIRDUMP_OUT"] = out
        env["CARGO_TARGET_DIR"] = tgt
        cmd = ["cargo", "+nightly", "check", "--offline", "--lib"] + ([] if j["std"] else ["--no-default-features"])
        p = subprocess.run(cmd, cwd=F.REPO, env=env, stdout=subprocess.PIPE, stderr=subprocess.STDOUT, text=True)
        res = {"job": j, "built": p.returncode == 0 and os.path.exists(out), "log": p.stdout[-1200:] if p.returncode else ""}
        if res["built"]:
            with open(out) as fh:
                prog = Program(json.load(fh))
            providers = {}
            for i in prog.insts:
                if i["local"] and i["body"] and not M.is_scanner_path(i["npath"], SCANNERS):
                    for cal, t, _ in prog.callees(i):
                        if cal is not None:
                            n = prog.insts[cal]["npath"]
                            if M.is_scanner_path(n, SCANNERS):
                                providers.setdefault(n.split("::")[-1], set()).add(n)
            res["providers"] = {k: sorted(v) for k, v in providers.items()}
            res["cfgs"] = sorted(x for x in prog.cfgs if x.startswith("httparse") or x.startswith("feature="))
            res["crates"] = prog.f["crates"]
        return res
    finally:
        shutil.rmtree(tgt, ignore_errors=True)
        if os.path.exists(out):
            os.remove(out)


def c13_lattice(c, tier):
    jobs = lattice_jobs()
    with cf.ThreadPoolExecutor(max_workers=int(os.environ.get("VERIF_PROCS", "16"))) as ex:
        results = list(ex.map(run_lattice_job, jobs))
    table = []
    for r in results:
        j = r["job"]
        name = "std=%s,disable_simd=%s,disable_compiletime=%s,target_feature=%s" % (j["std"], j["disable_simd"], j["disable_compiletime"], j["target_feature"] or "-")
        c.oblige(r["built"], "combo-does-not-build|%s" % name, {"rule": "combo-does-not-build", "detail": "build switch combination %s does not compile: %s" % (name, r.get("log", "")[-600:])})
        if not r["built"]:
            continue
        for fn in ("match_uri_vectored", "match_header_value_vectored", "match_header_name_vectored"):
            prov = r["providers"].get(fn, [])
            c.oblige(len(prov) == 1, "scanner-provider|%s|%s|%s" % (name, fn, ",".join(prov)),
                     {"rule": "scanner-provider", "detail": "combination %s: %s resolves to %d implementation(s) %s (expected exactly one)" % (name, fn, len(prov), prov)})
        if not j["std"]:
            bad = [x for x in r["crates"] if x in ("std", "alloc")]
            c.oblige(not bad, "no_std-links|%s" % name, {"rule": "no_std-dependency", "detail": "combination %s links %s" % (name, bad)})
        table.append({"combination": name, "providers": r["providers"], "cfgs": r["cfgs"]})
    c.coverage["switch_combinations"] = table
    for t in table[:4]:
        c.sample(t)
