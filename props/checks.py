"""Per-property checks.  Each function returns a process exit status (0 held / 1 violation)."""
import json
import os
import re
import sys

from .common import Check, R, F, Program, all_results, sum_obligations, root_kind, properties_of, violation_key, strip_lines

QUICK_BUDGET = {"states": 250000, "seconds": 240, "total_seconds": 900}


def machine_jobs(tier, roots=None, kinds=("entry", "scanner")):
    """(jobs, results) of the abstract-machine explorations for a tier.

    Scanner bodies are verified first.  The entry-point explorations use the scanner *summary*
    only for scanners whose contract was proved; a scanner that failed its contract (or calls one
    that did) is interpreted from its real body there, so the effect of a scanner defect on the
    grammar properties is seen as well."""
    cfgs = [("B0", "debug")]
    cross = []
    if tier == "thorough":
        cfgs += [("B0", "release"), ("B1", "debug"), ("B2", "debug"), ("B3", "debug"), ("B4", "debug"), ("B5", "debug")]
        # other targets (type-checked with -Zbuild-std; nothing is run): 32-bit x86, aarch64 NEON,
        # big-endian 64- and 32-bit SWAR -- scanner bodies only
        cross = [("B6", "debug"), ("B7", "debug"), ("B8", "debug"), ("B9", "debug")]
    th = F.tree_hash()
    jobs, results = [], []
    for cfg, prof in cross:
        if "scanner" not in kinds:
            continue
        prog = Program(F.get_facts(cfg, prof, th))
        sj = R.scanner_jobs(prog, cfg, prof)
        jobs += sj
        results += R.run_jobs(sj, budget=QUICK_BUDGET, th=th)
    for cfg, prof in cfgs:
        prog = Program(F.get_facts(cfg, prof, th))
        sj = R.scanner_jobs(prog, cfg, prof)
        sr = R.run_jobs(sj, budget=QUICK_BUDGET, th=th)
        failed = set()
        for j, r in zip(sj, sr):
            if not r or not r.get("ok") or r.get("budget") or r.get("unanalysable") or any(
                    v["rule"].startswith("scanner-") or v["rule"].startswith("obligation:") for v in r.get("violations", [])):
                failed.add(j["root"])
        # propagate to callers: their proofs assumed the callee's summary
        changed = True
        names = {j["root"] for j in sj}
        byname = {i["npath"]: i for i in prog.insts if i["npath"] in names and i["local"] and i["body"]}
        while changed:
            changed = False
            for n, inst in byname.items():
                if n in failed:
                    continue
                for c, t, _ in prog.callees(inst):
                    if c is not None and prog.insts[c]["npath"] in failed:
                        failed.add(n)
                        changed = True
        if "scanner" in kinds:
            jobs += sj
            results += sr
        if "bytesfn" in kinds:
            bj = R.bytesfn_jobs(prog, cfg, prof)
            jobs += bj
            results += R.run_jobs(bj, budget=QUICK_BUDGET, th=th)
        if "entry" in kinds:
            ej = R.entry_jobs(cfg, prof, roots=roots)
            if failed and tier == "thorough":
                # quick tier: a broken scanner contract is attributed to the grammar properties that
                # rely on that scanner (see properties_of); thorough tier: see its actual effect
                for j in ej:
                    j["no_summary"] = sorted(failed)
            er = R.run_jobs(ej, budget=QUICK_BUDGET, th=th)
            jobs += ej
            results += er
    return jobs, results


def job_summary(jobs, results):
    out = []
    for j, r in zip(jobs, results):
        if r and r.get("ok"):
            out.append({"config": j["config"] + "-" + j["profile"], "kind": j["kind"], "root": j["root"], "preset": j.get("preset"),
                        "abstract_states": r["states"], "transitions": r["transitions"], "returns": r["results"], "loop_head_states": r["keys"],
                        "verdicts": r.get("verdicts"), "wall_s": r["wall_s"]})
    return out


def machine_check(pid, tier, roots=None, kinds=("entry", "scanner"), level="proof", obligation_kinds=None, explanation=None, pid_filter=None, extra=None,
                  job_filter=None):
    c = Check(pid, tier, level)
    try:
        jobs, results = machine_jobs(tier, roots, kinds)
        if job_filter is not None:
            keep = [i for i, j in enumerate(jobs) if job_filter(j)]
            jobs, results = [jobs[i] for i in keep], [results[i] for i in keep]
    except F.BuildError as e:
        c.violation("build-failed|%s-%s" % (e.config, e.profile), {"rule": "build-failed", "detail": e.log[-1500:]})
        c.obligations += 1
        return c.finish()
    c.use_jobs(jobs, results, pid_filter)
    n, ok, per = sum_obligations(results, obligation_kinds)
    # every finished abstract path is one discharged comparison against the monitors
    paths = sum(r["results"] for r in all_results(results))
    c.obligations += n + paths
    c.discharged += ok + paths
    summ = job_summary(jobs, results)
    c.coverage.update({
        "states": sum(r["states"] for r in all_results(results)),
        "transitions": sum(r["transitions"] for r in all_results(results)),
        "abstract_paths_compared": paths,
        "obligation_kinds": {k: {"checked": v[0], "discharged": v[1], "first_site": v[2]} for k, v in sorted(per.items())},
        "jobs": summ,
        "functions_analysed": sorted(set(x for r in all_results(results) for x in r.get("instances", [])))[:200],
    })
    if explanation:
        c.coverage["explanation"] = explanation
    for s in summ[:3]:
        c.sample(s)
    for r in all_results(results)[:3]:
        for sp in (r.get("sample_paths") or [])[:2]:
            c.sample({"abstract_path": sp, "root": r["job"]["root"]})
    if extra:
        extra(c, jobs, results)
    return c.finish()


# ---------------------------------------------------------------------------------------------
def C01(tier):
    from . import rules
    def extra(c, jobs, results):
        rules.c01_structure(c, tier)
    return machine_check("C01", tier, kinds=("entry", "scanner"), explanation=(
        "abstract interpretation of the MIR of every entry point (all option values, all capacities, all buffer lengths/contents) and of "
        "every scanner backend body: each raw dereference, pointer offset, from_raw_parts, SIMD load, unchecked index, Assert terminator, "
        "panic call and target-feature call is an obligation discharged on every abstract path; plus acyclic call graph and progress rule"),
        extra=extra)


def C03(tier):
    return machine_check("C03", tier, kinds=("entry",), explanation="product of each entry point with the reference grammar: Complete(n) offset, Partial-vs-Complete")


def C05(tier):
    return machine_check("C05", tier, kinds=("entry",), explanation=(
        "class of every stored field from the implementation's own region summaries (method/name in tchar and non-empty, path in URI class, "
        "reason in HTAB/SP/VCHAR, value class + not starting/ending with SP/HTAB), from_utf8_unchecked arguments ASCII, NUL / bare CR never "
        "consumed on a path that returns Complete"))


def C06(tier):
    return machine_check("C06", tier, roots=[r for r in R.ENTRY_ROOTS if root_kind(r) == "request"], kinds=("entry", "scanner"),
                         job_filter=lambda j: j["kind"] == "entry" or j["root"].endswith("match_uri_vectored"),
                         explanation="request entry points in product with the request-line reference grammar (both multi-space settings)")


def C07(tier):
    return machine_check("C07", tier, roots=[r for r in R.ENTRY_ROOTS if root_kind(r) == "response"], kinds=("entry",),
                         explanation="response entry points in product with the status-line reference grammar (both multi-space settings)")


def C08(tier):
    return machine_check("C08", tier, roots=[r for r in R.ENTRY_ROOTS if root_kind(r) != "chunk"], kinds=("entry", "scanner"),
                         job_filter=lambda j: j["kind"] == "entry" or not j["root"].endswith("match_uri_vectored"),
                         explanation="header block under the default options: verdict, offsets and every stored name/value region equal the reference")


def C09(tier):
    def extra(c, jobs, results):
        # same result in debug and release: the release-profile MIR is explored as well
        th = F.tree_hash()
        jobs2 = R.entry_jobs("B0", "release", roots=["parse_chunk_size"])
        res2 = R.run_jobs(jobs2, budget=QUICK_BUDGET, th=th)
        c.use_jobs(jobs2, res2)
        n, ok, per = sum_obligations(res2)
        paths = sum(r["results"] for r in all_results(res2))
        c.obligations += n + paths
        c.discharged += ok + paths
        c.coverage["release_profile"] = job_summary(jobs2, res2)
    return machine_check("C09", tier, roots=["parse_chunk_size"], kinds=("entry",), extra=extra,
                         explanation="parse_chunk_size in product with the chunk-size reference, debug and release MIR; size accumulator proved not to wrap and equal to the digit value")


def c10_filter(v, job, res):
    if v["rule"].startswith("spec:errkind:"):
        m = re.search(r"first offending byte as (\w+)", v["detail"])
        if m and (v["rule"].split(":", 2)[2], m.group(1)) in wider_language(res):
            # the implementation accepts input the reference rejects with this error: the later,
            # differently named error is a consequence of the wider language (C06-C09/C14)
            return False
    return True


def C10(tier):
    return machine_check("C10", tier, roots=[r for r in R.ENTRY_ROOTS if root_kind(r) != "chunk"], kinds=("entry",), pid_filter=c10_filter,
                         explanation="error kind at every Err return equals the reference's classification of the first offending byte; TooManyHeaders only with a complete surplus line")


def wider_language(res):
    """(phase, reference error) pairs for which this implementation returns Complete where the
    reference rejects: its accepted language is wider there (a grammar violation, C06-C09/C14)."""
    out = set()
    for v in res.get("violations", []):
        if v["rule"].startswith("spec:verdict:"):
            m = re.match(r"implementation returned Complete, reference says Err\((\w+)\)", v["detail"])
            if m:
                out.add((v["rule"].split(":", 2)[2], m.group(1)))
    return out


def c11_filter(v, job, res):
    if v["rule"].startswith("spec:partial:"):
        m = re.search(r"reference says Err\((\w+)\)", v["detail"])
        if m and (v["rule"].split(":", 2)[2], m.group(1)) in wider_language(res):
            # Partial is honest with respect to the (wider) language this implementation accepts
            return False
    return True


def C11(tier):
    from . import specrel
    def extra(c, jobs, results):
        specrel.c11_coreachability(c, tier)
    return machine_check("C11", tier, kinds=("entry",), pid_filter=c11_filter, extra=extra, explanation=(
        "at every Partial return the end of the buffer has been observed, every byte the implementation has seen (consumed, looked at, or measured ahead) has been fed to the reference, and the reference is then in a non-rejecting state "
        "(every non-final reference state can reach Complete, checked on the reference itself)"))


def C12(tier):
    return machine_check("C12", tier, kinds=("scanner",), explanation=(
        "each scanner body (SWAR via lane-serial borrow analysis, SSE4.2/AVX2 via lane-wise tables, runtime dispatch incl. the cached "
        "feature static) from an arbitrary cursor state: consumed bytes in class, stops at end of input or in front of an out-of-class byte"))


def C14(tier):
    return machine_check("C14", tier, roots=[r for r in R.ENTRY_ROOTS if r.startswith("ParserConfig::")], kinds=("entry", "scanner"),
                         job_filter=lambda j: j["kind"] == "entry" or not j["root"].endswith("match_uri_vectored"),
                         explanation="all header-option combinations (symbolic configuration) against the reference parameterised by the same options")


def C17(tier):
    return machine_check("C17", tier, roots=[r for r in R.ENTRY_ROOTS if root_kind(r) != "chunk"], kinds=("entry",),
                         explanation="slot discipline (store only to the slot just handed out, index = number stored), headers slice on Complete, restore on Partial/Err, capacity only via iterator exhaustion")


def C18(tier):
    from . import rules
    def extra(c, jobs, results):
        rules.c18_statics(c, tier)
    return machine_check("C18", tier, roots=[r for r in R.ENTRY_ROOTS if root_kind(r) in ("request", "response")], kinds=("entry",), extra=extra,
                         explanation="fields of *self and slot contents start as HISTORY-tainted: no branch/arithmetic/output may depend on them; on Complete every field was assigned in this call")


def C19(tier):
    from . import rules
    return rules.c19(tier)


def C20(tier):
    from . import rules
    def extra(c, jobs, results):
        rules.c20_structure(c, tier)
    return machine_check("C20", tier, kinds=("entry", "scanner"), extra=extra, explanation=(
        "step bound: the cursor only moves forward (every store to Bytes.cursor is a non-negative advance, set_cursor unreachable, one "
        "cursor per call), every cycle of the abstract state graph consumes input or advances a finite iterator, and each committed region "
        "is handed to a bounded number of linear consumers, never the uncommitted window twice"))


def C13(tier):
    from . import rules
    def extra(c, jobs, results):
        rules.c13_lattice(c, tier)
        rules.c18_statics(c, tier)
        # profile independence: the release-profile MIR of the default entry points is compared with
        # the same reference as the debug-profile MIR
        th = F.tree_hash()
        roots = ["Request::parse", "Response::parse", "parse_headers", "parse_chunk_size"] if tier == "quick" else None
        jobs2 = R.entry_jobs("B0", "release", roots=roots)
        res2 = R.run_jobs(jobs2, budget=QUICK_BUDGET, th=th)
        jobs1 = R.entry_jobs("B0", "debug", roots=roots)
        res1 = R.run_jobs(jobs1, budget=QUICK_BUDGET, th=th)

        def keyset(jobs_, res_):
            ks = {}
            for j, r in zip(jobs_, res_):
                if not r or not r.get("ok"):
                    ks[("engine-failure", j["root"], str(j.get("preset")))] = {"rule": "engine-failure", "error": (r or {}).get("error")}
                    continue
                for v in r.get("violations", []):
                    from .common import norm_detail
                    ks[(v["rule"], j["root"], norm_detail(v["detail"]))] = dict(v, job=j)
                for u in r.get("unanalysable", []):
                    ks[("unanalysable:" + u["what"], j["root"], "")] = dict(u, job=j)
            return ks

        k1, k2 = keyset(jobs1, res1), keyset(jobs2, res2)
        for k in set(k1) ^ set(k2):
            rec = k1.get(k) or k2.get(k)
            prof = "debug" if k in k1 else "release"
            c.violation("profile-dependent|%s|%s|%s|%s" % (prof, k[0], k[1], k[2]),
                        dict(rec, note="deviation from the reference only in the %s-profile MIR" % prof, rule="profile-dependent:" + k[0]))
        if tier == "thorough":
            # backend independence on whole parses: every build variant deviates from the reference
            # exactly like the host default build (on the unchanged tree: not at all)
            for cfg in ("B1", "B2", "B3", "B4", "B5"):
                jobs3 = R.entry_jobs(cfg, "debug", roots=roots)
                res3 = R.run_jobs(jobs3, budget=QUICK_BUDGET, th=th)
                k3 = keyset(jobs3, res3)
                for k in set(k1) ^ set(k3):
                    rec = k1.get(k) or k3.get(k)
                    who = "B0" if k in k1 else cfg
                    c.violation("backend-dependent|%s|%s|%s|%s" % (who, k[0], k[1], k[2]),
                                dict(rec, note="deviation from the reference only in build variant %s" % who, rule="backend-dependent:" + k[0]))
                c.obligations += len(set(k1) | set(k3)) + 1
                c.discharged += len(set(k1) & set(k3)) + 1
                c.coverage.setdefault("build_variants", {})[cfg] = job_summary(jobs3, res3)
        c.obligations += len(set(k1) | set(k2)) + 1
        c.discharged += len(set(k1) & set(k2)) + 1
        n, ok, per = sum_obligations(res2)
        paths = sum(r["results"] for r in all_results(res2))
        c.obligations += n + paths
        c.discharged += ok + paths
        c.coverage["release_profile"] = job_summary(jobs2, res2)
    def only_backend(v, job):
        return True
    return machine_check("C13", tier, kinds=("scanner",), extra=extra, pid_filter=only_backend, explanation=(
        "(a) all 32 build-switch combinations type-check and each scanner name resolves to exactly one implementation; (b) every backend's "
        "scanners satisfy the same class contract (C12 jobs) and are entered only under their CPU feature on every interleaving of the "
        "feature-cache static; (c) release-profile MIR is equivalent to the same reference as debug-profile MIR; (d) no aligned loads / "
        "alignment-dependent branches (C01 obligations); (e) the only writable static is the atomic feature cache"))


def C15(tier):
    from . import rules, specrel
    from .common import norm_detail
    c = Check("C15", tier)
    syn_other = rules.c15_readsets(c, tier)
    specrel.c15_conservative(c, tier)
    # the implementation equals the reference for every option value (C06/C07/C08/C14 jobs)
    jobs, results = machine_jobs(tier, roots=[r for r in R.ENTRY_ROOTS if r.startswith("ParserConfig::")], kinds=("entry",))
    nondef, deflt = {}, {}
    otherk, samek = {}, {}
    decided = {}
    for j, r in zip(jobs, results):
        if not r or not r.get("ok"):
            c.violation("engine-failure|%s" % j["root"], {"rule": "engine-failure", "error": (r or {}).get("error")})
            continue
        for u in r.get("unanalysable", []):
            c.violation("unanalysable:%s|%s" % (u["what"], j["root"]), dict(u, job=j))
        kind = root_kind(j["root"])
        allowed = rules.REQ_FIELDS if kind == "request" else rules.RESP_FIELDS
        decided.setdefault(j["root"], set()).update(r.get("options_decided", []))
        preset_on = tuple(sorted(k[4:] for k, val in (j.get("preset") or {}).items() if val))
        for v in r.get("violations", []):
            k = (kind, v["rule"], norm_detail(v["detail"]))
            for on in v.get("options_on") or [()]:
                allon = tuple(sorted(set(on) | set(preset_on)))
                # (ii) options of the other message kind: every input, accepted by the default or not
                foreign = tuple(o for o in allon if o not in allowed)
                (otherk if foreign else samek).setdefault(k, dict(v, job=j, options=allon, foreign=foreign))
            if v["rule"].startswith("spec:") or v["rule"].startswith("hygiene:") or v["rule"].startswith("zero-copy:"):
                if v.get("default_alive") == [False]:
                    continue  # only on inputs the default configuration rejects: outside clause (i)
                for on in v.get("options_on") or [()]:
                    allon = tuple(sorted(set(on) | set(preset_on)))
                    (nondef if allon else deflt).setdefault(k, dict(v, job=j, options=allon))
    for k, v in nondef.items():
        if k not in deflt:
            c.violation("config-dependent|%s|%s" % (k[1], k[2]), dict(v, note="deviation from the reference only under non-default options %s" % (v.get("options"),), rule="config-dependent:" + k[1]))
    for k, v in otherk.items():
        if k not in samek:
            c.violation("other-kind-option|%s|%s|%s" % (k[0], k[1], k[2]),
                        dict(v, note="a %s result differs from the reference only with option(s) %s, which are documented for the other message kind" % (k[0], list(v["foreign"])),
                             rule="other-kind-option:" + k[1]))
    c.coverage["option_fields_branched_on"] = {r: sorted(d) for r, d in decided.items()}
    c.coverage["other_kind_fields_branched_on"] = {r: sorted(o for o in d if o not in (rules.REQ_FIELDS if root_kind(r) == "request" else rules.RESP_FIELDS)) for r, d in decided.items()}
    paths = sum(r["results"] for r in all_results(results))
    c.obligations += paths
    c.discharged += paths
    c.coverage["jobs"] = job_summary(jobs, results)
    c.coverage["explanation"] = ("(i) the reference grammars are conservative extensions of the default reference (checked on the references themselves "
                                 "by product exploration) and the implementation equals the reference for every option value; (ii) the reference of a message "
                                 "kind ignores the other kind's options, the exploration decides an option lazily at the first branch that depends on it, and "
                                 "no deviation from the reference may occur only with an other-kind option on (for any input, accepted by the default or not). "
                                 "The syntactic option read-sets of the two cones are reported as coverage only: a read whose value is discarded decides nothing.")
    return c.finish()


def C16(tier):
    c = Check("C16", tier)
    jobs, results = machine_jobs(tier, kinds=("entry",))
    by_root = {}
    for j, r in zip(jobs, results):
        if not r or not r.get("ok"):
            c.violation("engine-failure|%s" % j["root"], {"rule": "engine-failure", "error": (r or {}).get("error")})
            continue
        for u in r.get("unanalysable", []):
            c.violation("unanalysable:%s|%s" % (u["what"], j["root"]), dict(u, job=j))
        s = by_root.setdefault(j["root"], {})
        preset_on = tuple(sorted(k[4:] for k, val in (j.get("preset") or {}).items() if val))
        for v in r.get("violations", []):
            if v["rule"].startswith("spec:") or v["rule"].startswith("hygiene:") or v["rule"].startswith("zero-copy:") or v["rule"].startswith("framing:"):
                from .common import norm_detail
                for on in v.get("options_on") or [()]:
                    allon = tuple(sorted(set(on) | set(preset_on)))
                    s[(v["rule"], norm_detail(v["detail"]), allon)] = v
    groups = [
        ("Request::parse", "Request::parse_with_uninit_headers", None),
        ("ParserConfig::parse_request", "ParserConfig::parse_request_with_uninit_headers", None),
        ("Request::parse", "ParserConfig::parse_request", "default"),
        ("ParserConfig::parse_response", "ParserConfig::parse_response_with_uninit_headers", None),
        ("Response::parse", "ParserConfig::parse_response", "default"),
    ]
    for a, b, mode in groups:
        sa, sb = by_root.get(a, {}), by_root.get(b, {})
        if mode == "default":
            sb = {k: v for k, v in sb.items() if not k[2]}
        sa = {(k[0], k[1], k[2] if mode is None else ()): v for k, v in sa.items()}
        sb = {(k[0], k[1], k[2] if mode is None else ()): v for k, v in sb.items()}
        for k in set(sa) ^ set(sb):
            v = sa.get(k) or sb.get(k)
            who = a if k in sa else b
            other = b if k in sa else a
            c.violation("entry-points-disagree|%s|%s|%s|%s" % (who, other, k[0], k[1]),
                        {"rule": "entry-points-disagree", "detail": "%s deviates from the common reference (%s: %s) but %s does not" % (who, k[0], k[1], other), "path": v.get("path"), "where": v.get("where")})
        c.obligations += 1
        c.discharged += 1
    # parse_headers vs the header phase of request/response: violations in the headers phase must coincide
    ph = {(k[0], k[1]) for k in by_root.get("parse_headers", {}) if not k[0].startswith("headers:")}
    for r in ("Request::parse", "Response::parse"):
        pr = {(k[0], k[1]) for k in by_root.get(r, {}) if k[0].endswith(":headers") or k[0].startswith("hygiene:header") or (k[0].startswith("zero-copy:") and "header" in k[1])}
        for k in ph ^ pr:
            who = "parse_headers" if k in ph else r
            c.violation("entry-points-disagree|%s|headers-phase|%s|%s" % (who, k[0], k[1]),
                        {"rule": "entry-points-disagree", "detail": "header handling of %s deviates from the reference (%s: %s) unlike the other entry point kind" % (who, k[0], k[1])})
        c.obligations += 1
        c.discharged += 1
    paths = sum(r["results"] for r in all_results(results))
    c.obligations += paths
    c.discharged += paths
    c.coverage["jobs"] = job_summary(jobs, results)
    c.coverage["explanation"] = ("every entry point is compared with the one reference its kind and configuration select; sibling entry points must deviate from it "
                                 "identically (on the unchanged tree: not at all), so they agree pairwise")
    return c.finish()


ALL = {}
for _n, _f in list(globals().items()):
    if len(_n) == 3 and _n[0] == "C" and _n[1:].isdigit() and callable(_f):
        ALL[_n] = _f


def C04(tier):
    import sys as _sys
    _sys.path.insert(0, os.path.dirname(os.path.dirname(os.path.abspath(__file__))))
    from witness import corpus

    def extra(c, jobs, results):
        try:
            items, res = corpus.run_corpus()
        except Exception as e:  # noqa
            c.violation("witness-build-failed", {"rule": "witness-build-failed", "detail": str(e)[-800:]})
            c.obligations += 1
            return
        by = {r["name"]: r for r in res}
        nrej = nacc = 0
        for r in res:
            if r["expect"] == "accept":
                nacc += 1
                ok = r["compiled"]
                c.oblige(ok, "witness-must-compile|%s" % r["name"],
                         {"rule": "witness-must-compile", "detail": "usage pattern / twin %s no longer compiles: %s %s" % (r["name"], r["codes"], r["messages"])})
            else:
                nrej += 1
                ok = (not r["compiled"]) and r["codes"] and all(x in corpus.BORROW_CODES for x in r["codes"])
                twin_ok = by.get(r["twin"], {}).get("compiled", False)
                c.oblige(bool(ok), "witness-must-be-rejected|%s" % r["name"],
                         {"rule": "witness-must-be-rejected", "detail": "escaping program %s is %s (codes %s): a returned reference is no longer tied to its buffer/array" % (
                             r["name"], "accepted by the borrow checker" if r["compiled"] else "rejected for another reason", r["codes"])})
                c.oblige(twin_ok, "witness-twin-broken|%s" % r["name"], {"rule": "witness-twin-broken", "detail": "the compiling twin of %s does not compile" % r["name"]})
        floor_ok = nrej >= 80 and nacc >= 80
        c.oblige(floor_ok, "witness-floor", {"rule": "witness-floor", "detail": "corpus shrank: %d rejecting / %d accepting programs" % (nrej, nacc)})
        c.coverage["programs"] = len(res)
        c.coverage["rejecting_programs"] = nrej
        c.coverage["accepting_programs"] = nacc
        c.coverage["witness_samples"] = [{"name": r["name"], "expect": r["expect"], "codes": r["codes"]} for r in res[:6]]

    return machine_check("C04", tier, roots=[r for r in R.ENTRY_ROOTS if root_kind(r) != "chunk"], kinds=("entry",), level="other", extra=extra, explanation=(
        "slice half (proof): every stored non-empty slice is a region of this call's input buffer, starts at or after the end of the previously "
        "stored one and ends within the consumed bytes, on every abstract path (Complete, Partial or Err). Lifetime half (counted corpus): "
        "for each entry point x returned reference x escape kind a client program that must be rejected by the borrow checker with a borrow "
        "error code, its compiling twin, and usage patterns that must keep compiling; programs are only type-checked (rustc --emit=metadata)"))


ALL["C04"] = C04


def c02_filter(v, job, res):
    """A deviation from the (prefix-stable) reference is a streaming inconsistency when it only
    ever occurs after the implementation has observed the end of the buffer and the implementation
    nevertheless commits to Complete/Err (or stores a field): the same bytes followed by more input
    are handled like the reference, so the two calls disagree."""
    if v["rule"].startswith("scanner-"):
        # a scanner that deviates from its byte class only when it has seen the end of the buffer
        # gives different answers for a prefix and for the same bytes followed by more input
        return v.get("eof_paths") == [True]
    if not v["rule"].startswith("spec:"):
        return False
    cls = v["rule"].split(":")[1]
    d = v["detail"]
    if cls == "field" and ("stored before the reference has delimited it" in d or "stored twice" in d):
        # a start-line field shown to the caller before its final value is known: what a caller
        # reads alongside Partial is not what the final result will have
        return True
    if v.get("eof_paths") != [True]:
        return False
    if cls in ("field", "order", "slot"):
        return True
    if cls in ("offset", "errkind"):
        return True
    if cls == "verdict":
        return d.startswith("implementation returned Err") or d.startswith("implementation returned Complete") or "Complete(n)" in d
    return False


def C02(tier):
    return machine_check("C02", tier, kinds=("entry", "scanner"), pid_filter=c02_filter, explanation=(
        "the reference grammars are sequential machines with absorbing verdicts, hence prefix-stable; every entry point equals its reference for "
        "every buffer and every end-of-buffer position (C03/C06-C10/C14 jobs, which fork on the end of input at every read and look-ahead). "
        "A deviation is attributed to C02 when it occurs only on paths on which the end of the buffer had been observed before the "
        "implementation committed to Complete/Err or stored a field"))


ALL["C02"] = C02


def X_benchable(tier):
    """Not a property check (outside the quantifier of every given property): the doc(hidden)
    `_benchable` functions from an arbitrary cursor state.  Reports the known observation that
    parse_method/parse_token hand uncommitted, unvalidated bytes to from_utf8_unchecked."""
    return machine_check("X-benchable", tier, kinds=("bytesfn",), explanation="out-of-scope exploration of the doc(hidden) cursor API")


EXTRA = {"benchable": X_benchable}
