"""Reference-level relations, explored on the reference grammars alone (no implementation):

* co-reachability (C11): every non-final reference state has a continuation to Complete;
* conservative extension (C15 i): on every input the default reference completes, the reference
  with any option set completes at the same offset with the same fields/headers, except that with
  allow_multiple_spaces_in_response_status_delimiters the reason may start later.

Both are finite explorations over byte classes of the reference automata in engine/spec.py."""
import os
import sys

from .common import F, Program
from engine.absm import Machine, State, Fork, Violation, Unanalysable, FULL
from engine import spec as S


def fresh(kind, configured):
    root = ("ParserConfig::parse_%s" % kind) if configured else {"request": "Request::parse", "response": "Response::parse"}.get(kind, kind)
    if kind in ("headers", "chunk"):
        root = "parse_headers" if kind == "headers" else "parse_chunk_size"
    return S.spec_for_root(root, kind)


def abstract_key(mon, st):
    fl = tuple(sorted((k, v) for k, v in mon.flags.items() if k in ("obs", "started")))
    ns = mon.nstored
    nz = 0 if (ns[0] == "int" and ns[1] == 0) else 1
    v = mon.verdict[0] if mon.verdict else None
    ek = mon.verdict[1] if mon.verdict and mon.verdict[0] == "err" else None
    env = tuple(sorted((k, val) for k, val in st.env.items() if k.startswith("cfg:")))
    return (mon.q, fl, nz, v, ek, env)


def virtual_store(mon):
    if mon.pend is not None and mon.q[0] not in ("VE", "WE"):
        h = mon.pend
        mon.pend = None
        if mon.nstored[0] == "int" and mon.nstored[1] == 0:
            mon.nstored = ("int", 1, 64, False)
        return h
    return None


def step_all(m, st, mons):
    """All successors of (st, mons) on one more byte: list of (st', mons', stored headers)."""
    out = []
    base = st.clone()
    c = base.new_cell(FULL)
    base.tape = [c]
    work = [(base, [x.clone() for x in mons])]
    guard = 0
    while work:
        guard += 1
        if guard > 4000:
            raise Unanalysable("reference exploration: too many class splits")
        s, ms = work.pop()
        try:
            ms2 = [x.clone() for x in ms]
            stored = [None for _ in ms2]
            for i, x in enumerate(ms2):
                # the implementation decides the fold look-ahead (and stores the header) before it
                # consumes the next byte
                if x.q[0] in ("VE", "WE"):
                    x.resolve_lookahead(m, s)
                    stored[i] = virtual_store(x)
                x.consume(m, s, s.tape[0], 0)
            s.tape = []
            s.advance(1)
            for i, x in enumerate(ms2):
                h = virtual_store(x)
                if h is not None:
                    stored[i] = h
            out.append((s, ms2, stored))
        except Fork as f:
            for label, refine in f.choices:
                s2 = s.clone()
                if refine(s2) is False:
                    continue
                work.append((s2, [x.clone() for x in ms]))
    return out


def explore_reference(kind, configured=True, limit=20000):
    prog = Program(F.get_facts("B0", "debug"))
    m = Machine(prog)
    st = State()
    mon = fresh(kind, configured)
    init = (st, [mon])
    graph = {}
    keys = {}
    work = [init]
    k0 = abstract_key(mon, st)
    keys[k0] = init
    violations = []
    while work:
        s, ms = work.pop()
        k = abstract_key(ms[0], s)
        if k in graph:
            continue
        graph[k] = set()
        if ms[0].q[0] in ("DONE", "ERR"):
            continue
        if len(graph) > limit:
            raise Unanalysable("reference exploration exceeded %d states" % limit)
        try:
            succ = step_all(m, s, ms)
        except Violation:
            violations.append(("reference-internal", str(k)))
            continue
        for s2, ms2, _ in succ:
            k2 = abstract_key(ms2[0], s2)
            graph[k].add(k2)
            if k2 not in graph:
                # drop history the key does not depend on, to keep states small
                work.append((s2, ms2))
    # backward reachability of Complete
    good = {k for k in graph if k[3] == "complete"}
    changed = True
    while changed:
        changed = False
        for k, succ in graph.items():
            if k not in good and succ & good:
                good.add(k)
                changed = True
    dead = [k for k in graph if k not in good and k[3] is None]
    return graph, dead, violations


def c11_coreachability(c, tier):
    total = 0
    for kind in ("request", "response", "headers", "chunk"):
        try:
            graph, dead, viol = explore_reference(kind)
        except Unanalysable as e:
            c.oblige(False, "reference-exploration|%s|%s" % (kind, e.what), {"rule": "reference-exploration", "detail": e.what})
            continue
        total += len(graph)
        for k in dead[:5]:
            c.oblige(False, "reference-dead-state|%s|%s" % (kind, k[0]), {"rule": "reference-dead-state", "detail": "reference state %s of the %s grammar has no continuation to Complete although it is not rejecting" % (k, kind)})
        c.oblige(not viol, "reference-internal|%s" % kind, {"rule": "reference-internal", "detail": str(viol[:2])})
        c.obligations += len(graph)
        c.discharged += len(graph) - len(dead)
        c.coverage.setdefault("reference_states", {})[kind] = {"abstract_states": len(graph), "non_rejecting_states_without_completion": len(dead)}


def same_loc(st, a, b, mon):
    return mon.same_pos(st, a, b)


def c15_conservative(c, tier):
    prog = Program(F.get_facts("B0", "debug"))
    m = Machine(prog)
    nstates = 0
    for kind in ("request", "response"):
        st = State()
        a = fresh(kind, False)  # default options
        b = fresh(kind, True)  # options from the (symbolic) configuration
        seen = set()
        work = [(st, [a, b], [], [])]
        while work:
            s, ms, qa, qb = work.pop()
            ka, kb = abstract_key(ms[0], s), abstract_key(ms[1], s)
            key = (ka, kb, len(qa), len(qb))
            if key in seen:
                continue
            seen.add(key)
            nstates += 1
            if len(seen) > 60000:
                c.oblige(False, "reference-exploration|c15|%s" % kind, {"rule": "reference-exploration", "detail": "state budget"})
                break
            A, B = ms
            if A.q[0] == "ERR":
                continue  # nothing is required when the default rejects
            if A.q[0] == "DONE":
                # B must have completed at the same offset with the same fields and headers
                ok = B.q[0] == "DONE" and same_loc(s, A.verdict[1], B.verdict[1], A)
                detail = ""
                if not ok:
                    detail = "default reference completes, reference under options %s is in state %s" % (
                        sorted(k for k, v in s.env.items() if v), B.q)
                else:
                    for f, e in A.exp.items():
                        e2 = B.exp.get(f)
                        if e == e2:
                            continue
                        if e2 is None or e[0] != e2[0]:
                            if f == "reason" and e[0] == "slice" and e2 is not None and e2[0] in ("slice", "empty") and s.env.get("cfg:allow_multiple_spaces_in_response_status_delimiters"):
                                continue
                            ok, detail = False, "field %s differs: %s vs %s" % (f, e, e2)
                            break
                        if e[0] in ("slice", "utf8slice"):
                            same_start = same_loc(s, e[1], e2[1], A)
                            same_end = same_loc(s, e[2], e2[2], A)
                            if f == "reason" and s.env.get("cfg:allow_multiple_spaces_in_response_status_delimiters"):
                                same_start = True  # the documented exception: leading spaces stripped
                            if not (same_start and same_end):
                                ok, detail = False, "field %s delimited differently under options" % f
                                break
                    if ok and (qa or qb):
                        ok, detail = False, "headers reported differ in number"
                c.oblige(ok, "not-conservative|%s|%s" % (kind, detail), {"rule": "reference-not-conservative", "detail": detail, "options": sorted(k for k, v in s.env.items() if v)})
                continue
            try:
                succ = step_all(m, s, [A, B])
            except (Violation, Unanalysable) as e:
                c.oblige(False, "reference-exploration|c15|%s|%s" % (kind, e), {"rule": "reference-exploration", "detail": str(e)})
                continue
            for s2, ms2, stored in succ:
                qa2, qb2 = list(qa), list(qb)
                if stored[0] is not None:
                    qa2.append(stored[0])
                if stored[1] is not None:
                    qb2.append(stored[1])
                bad = False
                while qa2 and qb2:
                    ha, hb = qa2[0], qb2[0]
                    eq = all(same_loc(s2, ha[i], hb[i], ms2[0]) for i in range(4)) and ha[4] == hb[4]
                    if not eq:
                        c.oblige(False, "not-conservative|%s|header" % kind, {"rule": "reference-not-conservative", "detail": "a header kept by both references is delimited differently under options %s" % sorted(k for k, v in s2.env.items() if v)})
                        bad = True
                        break
                    qa2.pop(0)
                    qb2.pop(0)
                if bad or len(qa2) > 2 or len(qb2) > 2:
                    if not bad and ms2[0].q[0] != "ERR":
                        c.oblige(False, "not-conservative|%s|header-count" % kind, {"rule": "reference-not-conservative", "detail": "header sequences diverge under options"})
                    continue
                work.append((s2, ms2, qa2, qb2))
    c.obligations += nstates
    c.discharged += nstates
    c.coverage["reference_conservative_extension"] = {"product_states": nstates}
