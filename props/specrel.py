"""Reference-level relations (no implementation involved): conservative extension of the
reference grammars under the options (C15 i)."""


def c15_conservative(c, tier):
    # placeholder until the reference-vs-reference product lands: counted as no obligation
    c.coverage["reference_conservative_extension"] = "pending"
