"""Shared plumbing of the property checks: job selection, violation attribution, known findings,
evidence and replay files, VIOLATION / KNOWN-FINDING lines."""
import json
import os
import re
import sys
import time

VERIF = os.path.dirname(os.path.dirname(os.path.abspath(__file__)))
sys.path.insert(0, VERIF)

from engine import facts as F  # noqa: E402
from engine import runner as R  # noqa: E402
from engine.mir import Program  # noqa: E402

EVIDENCE = os.environ.get("VERIF_EVIDENCE_DIR") or os.path.join(VERIF, "evidence")
REPLAY = os.environ.get("VERIF_REPLAY_DIR") or os.path.join(VERIF, "replay")

SAFETY_RULES = {
    "panic-reachable", "unreachable-reached", "aligned-load", "write-to-input-buffer", "cursor-moved-backward", "start-beyond-cursor",
    "end-reassigned", "bytes-new-invariant", "assume-false", "division-by-zero",
}
HEADER_OPTS = ("allow_spaces_after_header_name_in_responses", "allow_obsolete_multiline_headers_in_responses",
               "allow_space_before_first_header_name", "ignore_invalid_headers_in_responses", "ignore_invalid_headers_in_requests")
MS_OPTS = ("allow_multiple_spaces_in_request_line_delimiters", "allow_multiple_spaces_in_response_status_delimiters")


def root_kind(root):
    if root == "parse_chunk_size":
        return "chunk"
    if root == "parse_headers":
        return "headers"
    return "request" if ("request" in root.lower()) else "response"


def env_of(v):
    p = v.get("path") or {}
    return p.get("env") or {}


def nondefault_header_opts(v, job):
    """True when the deviation occurs only with some header option on (never with all of them off)."""
    preset_on = set(k[4:] for k, val in (job.get("preset") or {}).items() if val)
    ons = v.get("options_on")
    if ons is not None and len(ons) < 250:
        return all((set(on) | preset_on) & set(HEADER_OPTS) for on in ons) if ons else bool(preset_on & set(HEADER_OPTS))
    env = dict(env_of(v))
    for k, val in (job.get("preset") or {}).items():
        env.setdefault(k, val)
    return any(env.get("cfg:" + o) for o in HEADER_OPTS)


def nondefault_ms_opts(v, job):
    env = dict(env_of(v))
    for k, val in (job.get("preset") or {}).items():
        env.setdefault(k, val)
    return any(env.get("cfg:" + o) for o in MS_OPTS)


def occurs_with_default_header_options(v, job):
    preset_on = set(k[4:] for k, val in (job.get("preset") or {}).items() if val)
    ons = v.get("options_on")
    if ons is None:
        return not nondefault_header_opts(v, job)
    if not ons:
        ons = [()]
    return any(not ((set(on) | preset_on) & set(HEADER_OPTS)) for on in ons)


LENIENT_HEADER_OPTIONS = ("ignore_invalid_headers_in_requests", "ignore_invalid_headers_in_responses", "allow_obsolete_multiline_headers_in_responses",
                          "allow_spaces_after_header_name_in_responses", "allow_space_before_first_header_name")


def unanalysable_concerns(pid, u, job):
    """Whether a construct outside the modelled fragment leaves property `pid` undecided.  Everything
    downstream of the construct is unexplored; what was decided before it stays decided:
    the start-line grammars when the construct is only met in the header phase, the strict header
    grammar when it is only met with a lenient header option switched on."""
    phases = u.get("phases")
    if pid in ("C06", "C07") and phases and all(p == "headers" for p in phases):
        return False
    if pid == "C08":
        opts = u.get("options")
        preset_on = [k[4:] for k, val in (job.get("preset") or {}).items() if val]
        if opts and all(any(o in LENIENT_HEADER_OPTIONS for o in list(on) + preset_on) for on in opts):
            return False
    return True


def properties_of(v, job, default_keys=None):
    """Which properties a recorded violation belongs to.  default_keys: deviations (kind, rule,
    normalised detail) known to occur with every header option off, in any job."""
    rule = v["rule"]
    out = set()
    kind = root_kind(job["root"]) if job["kind"] == "entry" else job["kind"]
    if rule.startswith("obligation:") or rule in SAFETY_RULES or rule.startswith("deref-of-") or rule.startswith("use-of-uninit") or rule.startswith("use-of-top"):
        out.add("C01")
    if rule == "obligation:from_utf8_unchecked-ascii":
        out.add("C05")
    if rule == "obligation:target-feature-available":
        out.add("C13")
    if rule == "cursor-moved-backward":
        out.add("C20")
    if rule in ("window-rescanned", "region-rescanned", "lookahead-rescanned"):
        out.add("C20")
    if rule == "no-progress-cycle":
        out.add("C20")
        out.add("C01")
    if rule.startswith("scanner-"):
        out.add("C12")
        out.add("C13")
        out.add("C02")  # filtered by the C02 check: only deviations that depend on where the buffer ends
        # the entry-point explorations assume the scanner contract: the grammar properties that
        # rest on this scanner are not established without it
        name = job["root"].split("::")[-1]
        if name == "match_uri_vectored":
            out.add("C06")
        elif name in ("match_header_value_vectored", "match_header_name_vectored"):
            out.add("C08")
            out.add("C14")
    if rule.startswith("hygiene:"):
        out.add("C05")
    if rule.startswith("zero-copy:"):
        out.add("C04")
    if rule.startswith("framing:"):
        out.add("C03")
    if rule.startswith("history:") or rule.startswith("use-of-hist"):
        out.add("C18")
    if rule.startswith("headers:"):
        out.add("C17")
    if rule == "headers:not-restored":
        out.add("C18")  # the documented parse / read more / parse again loop no longer behaves like a fresh value
    if rule == "partial-with-unread-input":
        out.add("C11")
    if rule.startswith("spec:"):
        out.add("C02")  # filtered by the C02 check: only deviations that depend on where the buffer ends
        _, cls, phase = rule.split(":", 2)
        if phase == "chunk":
            gram = "C09"
        elif phase == "start-line":
            gram = "C06" if kind == "request" else "C07"
        else:
            with_default = occurs_with_default_header_options(v, job)
            if not with_default and default_keys is not None and (kind, rule, norm_detail(v["detail"])) in default_keys:
                with_default = True
            gram = "C08" if with_default else "C14"
        d = v["detail"]
        if cls == "errkind":
            out.add("C10")
        elif cls == "offset":
            out.add("C03")
            out.add(gram)
        elif cls == "partial":
            out.add("C11")
            out.add(gram)
        elif cls in ("slot", "order"):
            out.add("C17")
            out.add(gram)
        elif cls == "field":
            out.add(gram)
            if "not a slice of the input buffer" in d:
                out.add("C04")
        else:
            out.add(gram)

            if "TooManyHeaders" in d:
                out.add("C10")
                out.add("C17")
    return out


def norm_detail(d):
    """Detail text without position-token names (they differ between roots and profiles)."""
    d = re.sub(r"-?\b[BTE]\d*\b( \+ )?", "<pos>", d)
    d = re.sub(r"cursor[+-]\d+", "<pos>", d)
    return re.sub(r"(<pos>)+( \+ -?\d+)?", "<pos>", d)


def violation_key(v, job):
    p = v.get("path") or {}
    ctx = ""
    if isinstance(p, dict):
        cc = p.get("consumed_classes")
        if cc:
            ctx = "|" + ",".join(cc[-3:])
    return "%s|%s|%s%s" % (v["rule"], job["root"], v["detail"], ctx)


class Check:
    def __init__(self, pid, tier, level="proof"):
        self.pid = pid
        self.tier = tier
        self.level = level
        self.t0 = time.time()
        self.violations = []  # (key, record)
        self.obligations = 0
        self.discharged = 0
        self.samples = []
        self.coverage = {}
        self.assumptions = []
        self.trusted = []
        self.known = load_known(pid)
        self.notes = []

    # -- accumulation -----------------------------------------------------------------------
    def violation(self, key, record):
        self.violations.append((key, record))

    def oblige(self, ok, key=None, record=None, n=1):
        self.obligations += n
        if ok:
            self.discharged += n
        elif key is not None:
            self.violation(key, record or {})

    def sample(self, s):
        if len(self.samples) < 12:
            self.samples.append(s)

    def use_jobs(self, jobs, results, pid_filter=None):
        """Account for exploration jobs: every obligation the machine discharged counts, every
        recorded violation/unanalysable construct attributed to this property is reported."""
        pid = self.pid
        default_keys = set()
        for job, res in zip(jobs, results):
            if res and res.get("ok") and job["kind"] == "entry":
                for v in res.get("violations", []):
                    if v["rule"].startswith("spec:") and occurs_with_default_header_options(v, job):
                        default_keys.add((root_kind(job["root"]), v["rule"], norm_detail(v["detail"])))
        for job, res in zip(jobs, results):
            if not res or not res.get("ok"):
                self.violation("engine-failure|%s|%s" % (job["root"], (res or {}).get("error", "no result")),
                               {"rule": "engine-failure", "job": job, "error": (res or {}).get("error"), "traceback": (res or {}).get("traceback")})
                self.obligations += 1
                continue
            if res.get("budget") and not (job["kind"] == "scanner" and pid not in ("C01", "C12", "C13", "C20")):
                self.violation("unanalysable:budget|%s" % job["root"], {"rule": "unanalysable:budget", "job": job, "detail": res["budget"]})
                self.obligations += 1
            for u in res.get("unanalysable", []):
                if job["kind"] == "scanner" and pid not in ("C01", "C12", "C13", "C20"):
                    continue  # a scanner body outside the model: the scanner properties fail closed
                if not unanalysable_concerns(pid, u, job):
                    continue
                key = "unanalysable:%s|%s|%s" % (u["what"], job["root"], strip_lines(u["where"]))
                self.violation(key, {"rule": "unanalysable:" + u["what"], "job": job, "where": u["where"], "stack": u.get("stack"), "path": u.get("path"),
                                     "note": "construct outside the modelled fragment: the check fails closed"})
                self.obligations += 1
            for v in res.get("violations", []):
                if pid in properties_of(v, job, default_keys) and (pid_filter is None or pid_filter(v, job, res)):
                    self.violation(violation_key(v, job), dict(v, job=job))
                    self.obligations += 1
        return self

    # -- output -------------------------------------------------------------------------------
    def finish(self, coverage_extra=None, exhaustive=True):
        os.makedirs(EVIDENCE, exist_ok=True)
        os.makedirs(REPLAY, exist_ok=True)
        seen = set()
        real = []
        known_hits = []
        for key, rec in self.violations:
            if key in seen:
                continue
            seen.add(key)
            kf = self.known.get(key)
            if kf is not None:
                known_hits.append((key, kf))
            else:
                real.append((key, rec))
        for key, kf in known_hits:
            print("KNOWN-FINDING: property=%s %s" % (self.pid, kf.get("what", key)))
        lines = []
        for i, (key, rec) in enumerate(real[:50]):
            path = os.path.join(REPLAY, "%s-%03d.json" % (self.pid, i))
            with open(path, "w") as fh:
                json.dump({"property": self.pid, "key": key, "violation": rec, "tier": self.tier}, fh, indent=1, default=str)
            lines.append("VIOLATION property=%s replay=%s" % (self.pid, path))
            where = rec.get("where") or rec.get("site") or ""
            print("  %s: %s %s" % (rec.get("rule", "violation"), rec.get("detail", rec.get("error", "")), ("@ " + str(where)) if where else ""))
        for l in lines:
            print(l)
        cov = {
            "obligations": max(self.obligations, 1),
            "discharged": self.discharged if not real else min(self.discharged, max(self.obligations, 1) - len(real)),
            "checker_cmd": "./vf check %s --tier %s" % (self.pid, self.tier),
            "trusted_base": self.trusted or DEFAULT_TRUSTED,
            "samples": self.samples or ["(no sample recorded)"],
            "exhaustive": exhaustive and not real,
            "known_findings_reported": [k for k, _ in known_hits],
            "violation_keys": [k for k, _ in real][:50],
        }
        cov.update(self.coverage)
        if coverage_extra:
            cov.update(coverage_extra)
        if self.level != "proof":
            cov.setdefault("explanation", "see DESIGN.md")
            cov.setdefault("evaluations", max(self.obligations, 1))
            cov.setdefault("distinct_nontrivial", max(self.obligations, 2))
            cov.setdefault("rule", "see explanation")
        ev = {
            "property_id": self.pid,
            "tier": self.tier,
            "seed": int(os.environ.get("VERIF_SEED", "0") or 0),
            "level": self.level,
            "coverage": cov,
            "assumptions": self.assumptions or DEFAULT_ASSUMPTIONS,
            "wall_s": round(time.time() - self.t0, 2),
            "violations": len(real),
        }
        with open(os.path.join(EVIDENCE, "%s.json" % self.pid), "w") as fh:
            json.dump(ev, fh, indent=1, default=str)
        print("%s %s: %d obligation(s), %d violation(s), %d known finding(s), %.1fs" % (
            self.pid, self.tier, self.obligations, len(real), len(known_hits), time.time() - self.t0))
        return 1 if real else 0


DEFAULT_TRUSTED = [
    "rustc nightly front-end: MIR construction, type/borrow checking, constant evaluation, callee resolution",
    "contracts of the modelled core functions (engine/prims.py) and per-lane semantics of the modelled SIMD intrinsics (engine/lanes.py)",
    "the abstract machine and exploration engine in /verif/engine (self-tested against seeded mutants)",
]
DEFAULT_ASSUMPTIONS = [
    "language semantics at MIR level (not code generation, not the hardware memory model)",
    "std_detect reports CPU features truthfully",
]


def strip_lines(where):
    return re.sub(r":\d+:\d+", "", where or "")


def load_known(pid):
    p = os.path.join(VERIF, "known_findings.json")
    out = {}
    if os.path.exists(p):
        with open(p) as fh:
            d = json.load(fh)
        for f in d.get("findings", []):
            if f.get("property") == pid:
                out[f["key"]] = f
    return out


def all_results(results):
    return [r for r in results if r and r.get("ok")]


def sum_obligations(results, kinds=None):
    n = ok = 0
    per = {}
    for r in all_results(results):
        for k, v in r["obligations"].items():
            if kinds is not None and not kinds(k):
                continue
            n += v[0]
            ok += v[1]
            e = per.setdefault(k, [0, 0, v[2]])
            e[0] += v[0]
            e[1] += v[1]
    return n, ok, per
