// Minimal JSON value + writer (no external crates available for rustc_private drivers here).
use std::fmt::Write;

#[derive(Clone, Debug)]
pub enum J {
    Null,
    Bool(bool),
    Int(i128),
    UInt(u128),
    Str(String),
    Arr(Vec<J>),
    Obj(Vec<(String, J)>),
}

impl J {
    pub fn s<S: Into<String>>(s: S) -> J {
        J::Str(s.into())
    }
    pub fn obj(fields: Vec<(&str, J)>) -> J {
        J::Obj(fields.into_iter().map(|(k, v)| (k.to_string(), v)).collect())
    }
    pub fn opt<T>(o: Option<T>, f: impl FnOnce(T) -> J) -> J {
        match o {
            Some(v) => f(v),
            None => J::Null,
        }
    }
    pub fn write(&self, out: &mut String) {
        match self {
            J::Null => out.push_str("null"),
            J::Bool(b) => out.push_str(if *b { "true" } else { "false" }),
            J::Int(i) => {
                let _ = write!(out, "{}", i);
            }
            J::UInt(u) => {
                let _ = write!(out, "{}", u);
            }
            J::Str(s) => write_str(s, out),
            J::Arr(a) => {
                out.push('[');
                for (i, v) in a.iter().enumerate() {
                    if i > 0 {
                        out.push(',');
                    }
                    v.write(out);
                }
                out.push(']');
            }
            J::Obj(o) => {
                out.push('{');
                for (i, (k, v)) in o.iter().enumerate() {
                    if i > 0 {
                        out.push(',');
                    }
                    write_str(k, out);
                    out.push(':');
                    v.write(out);
                }
                out.push('}');
            }
        }
    }
}

fn write_str(s: &str, out: &mut String) {
    out.push('"');
    for c in s.chars() {
        match c {
            '"' => out.push_str("\\\""),
            '\\' => out.push_str("\\\\"),
            '\n' => out.push_str("\\n"),
            '\r' => out.push_str("\\r"),
            '\t' => out.push_str("\\t"),
            c if (c as u32) < 0x20 => {
                let _ = write!(out, "\\u{:04x}", c as u32);
            }
            c => out.push(c),
        }
    }
    out.push('"');
}
