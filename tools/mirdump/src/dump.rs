// Monomorphic instance traversal + MIR/type/constant export.
use crate::json::J;
use rustc_abi::{FieldsShape, HasDataLayout, TagEncoding, Variants};
use rustc_hir::def::DefKind;
use rustc_hir::def_id::{DefId, LOCAL_CRATE};
use rustc_middle::mir::interpret::{AllocId, GlobalAlloc, Scalar};
use rustc_middle::mir::{self, ConstValue};
use rustc_middle::ty::{self, EarlyBinder, Instance, InstanceKind, Ty, TyCtxt, TypingEnv};
use rustc_span::Span;
use std::collections::HashMap;

pub struct D<'tcx> {
    tcx: TyCtxt<'tcx>,
    env: TypingEnv<'tcx>,
    inst_ids: HashMap<Instance<'tcx>, usize>,
    inst_list: Vec<Instance<'tcx>>,
    type_ids: HashMap<Ty<'tcx>, usize>,
    type_json: Vec<J>,
    alloc_ids: HashMap<AllocId, usize>,
    alloc_json: Vec<J>,
    static_ids: HashMap<DefId, usize>,
    static_json: Vec<J>,
    unresolved: Vec<J>,
}

fn jstr<T: std::fmt::Debug>(t: &T) -> J {
    J::Str(format!("{:?}", t))
}

pub fn dump<'tcx>(tcx: TyCtxt<'tcx>) -> String {
    let mut d = D {
        tcx,
        env: TypingEnv::fully_monomorphized(),
        inst_ids: HashMap::new(),
        inst_list: Vec::new(),
        type_ids: HashMap::new(),
        type_json: Vec::new(),
        alloc_ids: HashMap::new(),
        alloc_json: Vec::new(),
        static_ids: HashMap::new(),
        static_json: Vec::new(),
        unresolved: Vec::new(),
    };
    d.run()
}

impl<'tcx> D<'tcx> {
    fn run(&mut self) -> String {
        let tcx = self.tcx;
        // ---- items of the local crate -------------------------------------------------------
        let mut items = Vec::new();
        let mut roots = Vec::new();
        for ldid in tcx.hir_crate_items(()).definitions() {
            let did = ldid.to_def_id();
            let kind = tcx.def_kind(did);
            let path = tcx.def_path_str(did);
            let mut o = vec![
                ("path", J::s(path.clone())),
                ("kind", jstr(&kind)),
                ("span", self.span(tcx.def_span(did))),
            ];
            match kind {
                DefKind::Fn | DefKind::AssocFn => {
                    o.push(("vis", jstr(&tcx.visibility(did))));
                    let sig = tcx.fn_sig(did).instantiate_identity().skip_norm_wip();
                    o.push(("unsafe", J::Bool(!sig.safety().is_safe())));
                    o.push(("sig", J::s(format!("{:?}", sig))));
                    let attrs = tcx.codegen_fn_attrs(did);
                    o.push((
                        "target_features",
                        J::Arr(attrs.target_features.iter().map(|f| J::s(f.name.to_string())).collect()),
                    ));
                    let g = tcx.generics_of(did);
                    let mono = g.requires_monomorphization(tcx);
                    o.push(("generic", J::Bool(mono)));
                    if !mono && tcx.is_mir_available(did) {
                        let inst = Instance::mono(tcx, did);
                        let id = self.inst_id(inst);
                        roots.push(J::UInt(id as u128));
                        o.push(("inst", J::UInt(id as u128)));
                    }
                }
                DefKind::Static { .. } => {
                    let sid = self.static_id(did);
                    o.push(("static", J::UInt(sid as u128)));
                    o.push(("vis", jstr(&tcx.visibility(did))));
                }
                DefKind::Struct | DefKind::Enum | DefKind::Union => {
                    o.push(("vis", jstr(&tcx.visibility(did))));
                    let adt = tcx.adt_def(did);
                    let mut vs = Vec::new();
                    for v in adt.variants() {
                        let mut fs = Vec::new();
                        for f in &v.fields {
                            fs.push(J::obj(vec![
                                ("name", J::s(f.name.to_string())),
                                ("vis", jstr(&f.vis)),
                                ("ty", J::s(format!("{:?}", tcx.type_of(f.did).instantiate_identity().skip_norm_wip()))),
                            ]));
                        }
                        vs.push(J::obj(vec![("name", J::s(v.name.to_string())), ("fields", J::Arr(fs))]));
                    }
                    o.push(("variants", J::Arr(vs)));
                }
                DefKind::ExternCrate | DefKind::Use | DefKind::Mod | DefKind::Const { .. } | DefKind::AssocConst { .. } => {}
                _ => {}
            }
            items.push(J::obj(o));
        }

        // ---- traversal ----------------------------------------------------------------------
        let mut inst_json: Vec<J> = Vec::new();
        let mut i = 0;
        while i < self.inst_list.len() {
            let inst = self.inst_list[i];
            let j = self.dump_instance(i, inst);
            inst_json.push(j);
            i += 1;
        }

        // ---- crate / session facts ----------------------------------------------------------
        let sess = tcx.sess;
        let mut cfgs = Vec::new();
        for (name, val) in sess.config.iter() {
            match val {
                Some(v) => cfgs.push(J::s(format!("{}=\"{}\"", name, v))),
                None => cfgs.push(J::s(name.to_string())),
            }
        }
        let mut crates = vec![];
        for c in tcx.crates(()) {
            crates.push(J::s(tcx.crate_name(*c).to_string()));
        }
        let dl = tcx.data_layout();
        let top = J::obj(vec![
            ("crate", J::s(tcx.crate_name(LOCAL_CRATE).to_string())),
            ("config", J::s(std::env::var("MIRDUMP_CONFIG").unwrap_or_default())),
            ("cfgs", J::Arr(cfgs)),
            ("crates", J::Arr(crates)),
            (
                "target",
                J::obj(vec![
                    ("triple", J::s(sess.opts.target_triple.tuple().to_string())),
                    ("arch", J::s(sess.target.arch.to_string())),
                    ("ptr_bytes", J::UInt(dl.pointer_size().bytes() as u128)),
                    ("endian", J::s(match dl.endian { rustc_abi::Endian::Little => "little", rustc_abi::Endian::Big => "big" })),
                ]),
            ),
            ("debug_assertions", J::Bool(sess.opts.debug_assertions)),
            ("overflow_checks", J::Bool(sess.overflow_checks())),
            ("ub_checks", J::Bool(sess.ub_checks())),
            ("items", J::Arr(items)),
            ("roots", J::Arr(roots)),
            ("types", J::Arr(std::mem::take(&mut self.type_json))),
            ("allocs", J::Arr(std::mem::take(&mut self.alloc_json))),
            ("statics", J::Arr(std::mem::take(&mut self.static_json))),
            ("instances", J::Arr(inst_json)),
            ("unresolved", J::Arr(std::mem::take(&mut self.unresolved))),
        ]);
        let mut s = String::new();
        top.write(&mut s);
        s
    }

    // ------------------------------------------------------------------------------------------
    fn span(&self, sp: Span) -> J {
        if sp.is_dummy() {
            return J::Null;
        }
        let sm = self.tcx.sess.source_map();
        let show = |sp: Span| {
            let loc = sm.lookup_char_pos(sp.lo());
            format!("{}:{}:{}", loc.file.name.prefer_local_unconditionally(), loc.line, loc.col.0 + 1)
        };
        let here = show(sp);
        if sp.from_expansion() {
            let cs = sp.source_callsite();
            J::obj(vec![("at", J::s(here)), ("cs", J::s(show(cs))), ("exp", J::Bool(true))])
        } else {
            J::s(here)
        }
    }

    fn inst_id(&mut self, inst: Instance<'tcx>) -> usize {
        if let Some(&i) = self.inst_ids.get(&inst) {
            return i;
        }
        let i = self.inst_list.len();
        self.inst_ids.insert(inst, i);
        self.inst_list.push(inst);
        i
    }

    fn static_id(&mut self, did: DefId) -> usize {
        if let Some(&i) = self.static_ids.get(&did) {
            return i;
        }
        let tcx = self.tcx;
        let i = self.static_json.len();
        self.static_ids.insert(did, i);
        self.static_json.push(J::Null);
        let mut o = vec![
            ("path", J::s(tcx.def_path_str(did))),
            ("crate", J::s(tcx.crate_name(did.krate).to_string())),
            ("local", J::Bool(did.is_local())),
        ];
        if tcx.is_foreign_item(did) {
            o.push(("foreign", J::Bool(true)));
        } else {
            let ty = tcx.normalize_erasing_regions(self.env, tcx.type_of(did).instantiate_identity());
            o.push(("ty", J::UInt(self.ty_id(ty) as u128)));
            o.push(("mutable", J::Bool(tcx.static_mutability(did) == Some(rustc_hir::Mutability::Mut))));
            o.push(("freeze", J::Bool(ty.is_freeze(tcx, self.env))));
            if did.is_local() {
                if let Ok(alloc) = tcx.eval_static_initializer(did) {
                    let a = alloc.inner();
                    o.push(("init", self.mem_json(a)));
                }
            }
        }
        self.static_json[i] = J::obj(o);
        i
    }

    fn mem_json(&mut self, a: &rustc_middle::mir::interpret::Allocation) -> J {
        let len = a.len();
        let bytes = a.inspect_with_uninit_and_ptr_outside_interpreter(0..len);
        let mut relocs = Vec::new();
        let ptrs: Vec<(rustc_abi::Size, AllocId)> =
            a.provenance().ptrs().iter().map(|(off, prov)| (*off, prov.alloc_id())).collect();
        for (off, aid) in ptrs {
            let t = self.alloc_id(aid);
            relocs.push(J::Arr(vec![J::UInt(off.bytes() as u128), J::UInt(t as u128)]));
        }
        J::obj(vec![
            ("bytes", J::Arr(bytes.iter().map(|b| J::UInt(*b as u128)).collect())),
            ("relocs", J::Arr(relocs)),
            ("align", J::UInt(a.align.bytes() as u128)),
            ("mutable", J::Bool(a.mutability == rustc_hir::Mutability::Mut)),
        ])
    }

    fn alloc_id(&mut self, aid: AllocId) -> usize {
        if let Some(&i) = self.alloc_ids.get(&aid) {
            return i;
        }
        let i = self.alloc_json.len();
        self.alloc_ids.insert(aid, i);
        self.alloc_json.push(J::Null);
        let tcx = self.tcx;
        let j = match tcx.global_alloc(aid) {
            GlobalAlloc::Function { instance } => {
                let id = self.inst_id(instance);
                J::obj(vec![("k", J::s("fn")), ("inst", J::UInt(id as u128))])
            }
            GlobalAlloc::Static(did) => {
                let sid = self.static_id(did);
                J::obj(vec![("k", J::s("static")), ("static", J::UInt(sid as u128)), ("path", J::s(tcx.def_path_str(did)))])
            }
            GlobalAlloc::Memory(alloc) => {
                let m = self.mem_json(alloc.inner());
                J::obj(vec![("k", J::s("mem")), ("mem", m)])
            }
            other => J::obj(vec![("k", J::s("other")), ("dbg", jstr(&other))]),
        };
        self.alloc_json[i] = j;
        i
    }

    // ------------------------------------------------------------------------------------------
    fn ty_id(&mut self, ty: Ty<'tcx>) -> usize {
        if let Some(&i) = self.type_ids.get(&ty) {
            return i;
        }
        let i = self.type_json.len();
        self.type_ids.insert(ty, i);
        self.type_json.push(J::Null);
        let j = self.describe_ty(ty);
        self.type_json[i] = j;
        i
    }

    fn tid(&mut self, ty: Ty<'tcx>) -> J {
        J::UInt(self.ty_id(ty) as u128)
    }

    fn describe_ty(&mut self, ty: Ty<'tcx>) -> J {
        let tcx = self.tcx;
        let mut o: Vec<(&str, J)> = vec![("s", J::s(format!("{}", ty)))];
        let layout = tcx.layout_of(self.env.as_query_input(ty)).ok();
        if let Some(l) = &layout {
            if l.is_sized() {
                o.push(("size", J::UInt(l.size.bytes() as u128)));
            }
            o.push(("align", J::UInt(l.align.abi.bytes() as u128)));
        }
        match *ty.kind() {
            ty::Bool => o.push(("k", J::s("bool"))),
            ty::Char => o.push(("k", J::s("char"))),
            ty::Int(_) => {
                o.push(("k", J::s("int")));
                o.push(("signed", J::Bool(true)));
            }
            ty::Uint(_) => {
                o.push(("k", J::s("int")));
                o.push(("signed", J::Bool(false)));
            }
            ty::Float(_) => o.push(("k", J::s("float"))),
            ty::Never => o.push(("k", J::s("never"))),
            ty::Str => o.push(("k", J::s("str"))),
            ty::Ref(_, t, m) => {
                o.push(("k", J::s("ref")));
                o.push(("mut", J::Bool(m.is_mut())));
                o.push(("to", self.tid(t)));
            }
            ty::RawPtr(t, m) => {
                o.push(("k", J::s("ptr")));
                o.push(("mut", J::Bool(m.is_mut())));
                o.push(("to", self.tid(t)));
            }
            ty::Slice(t) => {
                o.push(("k", J::s("slice")));
                o.push(("elem", self.tid(t)));
            }
            ty::Array(t, n) => {
                o.push(("k", J::s("array")));
                o.push(("elem", self.tid(t)));
                let len = n.try_to_target_usize(tcx);
                o.push(("len", J::opt(len, |v| J::UInt(v as u128))));
            }
            ty::Tuple(ts) => {
                o.push(("k", J::s("tuple")));
                let mut fs = Vec::new();
                for (i, t) in ts.iter().enumerate() {
                    let off = layout.as_ref().map(|l| l.fields.offset(i).bytes());
                    fs.push(J::obj(vec![("ty", self.tid(t)), ("off", J::opt(off, |v| J::UInt(v as u128)))]));
                }
                o.push(("fields", J::Arr(fs)));
            }
            ty::Adt(adt, args) => {
                o.push(("k", J::s("adt")));
                o.push(("path", J::s(tcx.def_path_str(adt.did()))));
                o.push(("crate", J::s(tcx.crate_name(adt.did().krate).to_string())));
                o.push((
                    "adt_kind",
                    J::s(if adt.is_enum() { "enum" } else if adt.is_union() { "union" } else { "struct" }),
                ));
                o.push(("simd", J::Bool(adt.repr().simd())));
                o.push(("has_drop", J::Bool(adt.destructor(tcx).is_some())));
                let mut targs = Vec::new();
                for a in args.iter() {
                    if let Some(t) = a.as_type() {
                        targs.push(self.tid(t));
                    } else {
                        targs.push(jstr(&a));
                    }
                }
                o.push(("args", J::Arr(targs)));
                let mut vs = Vec::new();
                for (vi, v) in adt.variants().iter_enumerated() {
                    let mut fs = Vec::new();
                    for (fi, f) in v.fields.iter_enumerated() {
                        let fty = f.ty(tcx, args);
                        let fty = tcx.normalize_erasing_regions(self.env, ty::Unnormalized::new_wip(fty));
                        let off = layout.as_ref().and_then(|l| match &l.variants {
                            Variants::Single { index } if *index == vi => match &l.fields {
                                FieldsShape::Arbitrary { .. } => Some(l.fields.offset(fi.as_usize()).bytes()),
                                FieldsShape::Union(_) => Some(0),
                                _ => None,
                            },
                            Variants::Multiple { variants, .. } => {
                                Some(variants[vi].fields.offset(fi.as_usize()).bytes())
                            }
                            _ => None,
                        });
                        fs.push(J::obj(vec![
                            ("name", J::s(f.name.to_string())),
                            ("ty", self.tid(fty)),
                            ("off", J::opt(off, |v| J::UInt(v as u128))),
                        ]));
                    }
                    let discr = if adt.is_enum() {
                        let dv = ty.discriminant_for_variant(tcx, vi).map(|d| d.val);
                        J::opt(dv, |v| J::UInt(v))
                    } else {
                        J::Null
                    };
                    vs.push(J::obj(vec![("name", J::s(v.name.to_string())), ("fields", J::Arr(fs)), ("discr", discr)]));
                }
                o.push(("variants", J::Arr(vs)));
                if let Some(l) = &layout {
                    match &l.variants {
                        Variants::Single { index } => {
                            o.push(("layout_variants", J::obj(vec![("k", J::s("single")), ("index", J::UInt(index.as_usize() as u128))])));
                        }
                        Variants::Multiple { tag, tag_encoding, tag_field, .. } => {
                            let tag_size = tag.size(&tcx).bytes();
                            let tag_off = l.fields.offset(tag_field.as_usize()).bytes();
                            let enc = match tag_encoding {
                                TagEncoding::Direct => J::obj(vec![("k", J::s("direct"))]),
                                TagEncoding::Niche { untagged_variant, niche_variants, niche_start } => J::obj(vec![
                                    ("k", J::s("niche")),
                                    ("untagged", J::UInt(untagged_variant.as_usize() as u128)),
                                    ("first", J::UInt(niche_variants.start().as_usize() as u128)),
                                    ("last", J::UInt(niche_variants.end().as_usize() as u128)),
                                    ("start", J::UInt(*niche_start)),
                                ]),
                            };
                            o.push((
                                "layout_variants",
                                J::obj(vec![
                                    ("k", J::s("multiple")),
                                    ("tag_size", J::UInt(tag_size as u128)),
                                    ("tag_off", J::UInt(tag_off as u128)),
                                    ("enc", enc),
                                ]),
                            ));
                        }
                        Variants::Empty => {
                            o.push(("layout_variants", J::obj(vec![("k", J::s("empty"))])));
                        }
                    }
                }
            }
            ty::FnDef(did, args) => {
                o.push(("k", J::s("fndef")));
                o.push(("path", J::s(tcx.def_path_str(did))));
                o.push(("crate", J::s(tcx.crate_name(did.krate).to_string())));
                o.push(("argstr", J::s(format!("{:?}", args))));
                // resolve as a direct call target, when possible
                if let Ok(Some(inst)) = Instance::try_resolve(tcx, self.env, did, args) {
                    let id = self.inst_id(inst);
                    o.push(("inst", J::UInt(id as u128)));
                }
            }
            ty::FnPtr(..) => o.push(("k", J::s("fnptr"))),
            ty::Closure(did, args) => {
                o.push(("k", J::s("closure")));
                o.push(("path", J::s(tcx.def_path_str(did))));
                let ups = args.as_closure().upvar_tys();
                let mut fs = Vec::new();
                for (i, t) in ups.iter().enumerate() {
                    let off = layout.as_ref().map(|l| l.fields.offset(i).bytes());
                    fs.push(J::obj(vec![("ty", self.tid(t)), ("off", J::opt(off, |v| J::UInt(v as u128)))]));
                }
                o.push(("fields", J::Arr(fs)));
                o.push(("closure_kind", jstr(&args.as_closure().kind())));
            }
            ty::Dynamic(..) => o.push(("k", J::s("dyn"))),
            ty::Foreign(..) => o.push(("k", J::s("foreign"))),
            _ => {
                o.push(("k", J::s("other")));
                o.push(("dbg", jstr(&ty.kind())));
            }
        }
        J::obj(o)
    }

    // ------------------------------------------------------------------------------------------
    fn inst_kind(&self, inst: Instance<'tcx>) -> &'static str {
        match inst.def {
            InstanceKind::Item(_) => "item",
            InstanceKind::Intrinsic(_) => "intrinsic",
            InstanceKind::VTableShim(_) => "vtable_shim",
            InstanceKind::ReifyShim(..) => "reify_shim",
            InstanceKind::FnPtrShim(..) => "fn_ptr_shim",
            InstanceKind::Virtual(..) => "virtual",
            InstanceKind::ClosureOnceShim { .. } => "closure_once_shim",
            InstanceKind::DropGlue(_, None) => "drop_glue_noop",
            InstanceKind::DropGlue(_, Some(_)) => "drop_glue",
            InstanceKind::CloneShim(..) => "clone_shim",
            InstanceKind::ThreadLocalShim(_) => "thread_local_shim",
            _ => "other",
        }
    }

    fn dump_instance(&mut self, id: usize, inst: Instance<'tcx>) -> J {
        let tcx = self.tcx;
        let did = inst.def_id();
        let krate = tcx.crate_name(did.krate).to_string();
        let path = tcx.def_path_str(did);
        let mut o: Vec<(&str, J)> = vec![
            ("id", J::UInt(id as u128)),
            ("name", J::s(format!("{}", inst))),
            ("path", J::s(path)),
            ("crate", J::s(krate)),
            ("local", J::Bool(did.is_local())),
            ("kind", J::s(self.inst_kind(inst))),
        ];
        let mut targs = Vec::new();
        for a in inst.args.iter() {
            if let Some(t) = a.as_type() {
                targs.push(self.tid(t));
            } else if let Some(c) = a.as_const() {
                let leaf = c.try_to_leaf().map(|si| si.to_bits(si.size()));
                targs.push(J::obj(vec![("const", jstr(&c)), ("val", J::opt(leaf, |v| J::UInt(v)))]));
            } else {
                targs.push(J::Null);
            }
        }
        o.push(("args", J::Arr(targs)));
        match inst.def {
            InstanceKind::DropGlue(_, t) => {
                o.push(("drop_ty", J::opt(t, |t| self.tid(t))));
            }
            InstanceKind::FnPtrShim(_, t) | InstanceKind::CloneShim(_, t) => {
                o.push(("shim_ty", self.tid(t)));
            }
            _ => {}
        }
        let def_kind = tcx.def_kind(did);
        if matches!(def_kind, DefKind::Fn | DefKind::AssocFn) {
            let attrs = tcx.codegen_fn_attrs(did);
            o.push(("target_features", J::Arr(attrs.target_features.iter().map(|f| J::s(f.name.to_string())).collect())));
            let sig = tcx.fn_sig(did).instantiate_identity().skip_norm_wip();
            o.push(("unsafe", J::Bool(!sig.safety().is_safe())));
            o.push(("vis", jstr(&tcx.visibility(did))));
        }
        if let Some(intr) = tcx.intrinsic(did) {
            o.push(("intrinsic", J::s(intr.name.to_string())));
        }
        o.push(("span", self.span(tcx.def_span(did))));

        let has_body = match inst.def {
            InstanceKind::Item(d) => tcx.is_mir_available(d) && !tcx.is_foreign_item(d),
            InstanceKind::Intrinsic(_) | InstanceKind::Virtual(..) => false,
            InstanceKind::DropGlue(_, None) => false,
            _ => true,
        };
        if has_body {
            let body = tcx.instance_mir(inst.def);
            o.push(("body", self.dump_body(inst, body)));
        } else {
            o.push(("body", J::Null));
        }
        J::obj(o)
    }

    fn mono<T: ty::TypeFoldable<TyCtxt<'tcx>>>(&self, inst: Instance<'tcx>, v: T) -> T {
        inst.instantiate_mir_and_normalize_erasing_regions(self.tcx, self.env, EarlyBinder::bind(v))
    }

    fn dump_body(&mut self, inst: Instance<'tcx>, body: &mir::Body<'tcx>) -> J {
        let mut names: HashMap<usize, String> = HashMap::new();
        for vdi in &body.var_debug_info {
            if let mir::VarDebugInfoContents::Place(p) = &vdi.value {
                if p.projection.is_empty() {
                    names.entry(p.local.as_usize()).or_insert_with(|| vdi.name.to_string());
                }
            }
        }
        let mut locals = Vec::new();
        for (l, decl) in body.local_decls.iter_enumerated() {
            let t = self.mono(inst, decl.ty);
            locals.push(J::obj(vec![
                ("ty", self.tid(t)),
                ("name", J::opt(names.get(&l.as_usize()), |n| J::s(n.clone()))),
                ("mut", J::Bool(decl.mutability.is_mut())),
            ]));
        }
        let mut blocks = Vec::new();
        for (_bb, data) in body.basic_blocks.iter_enumerated() {
            let mut stmts = Vec::new();
            for st in &data.statements {
                if let Some(j) = self.dump_stmt(inst, body, st) {
                    stmts.push(j);
                }
            }
            let term = self.dump_term(inst, body, data.terminator());
            blocks.push(J::obj(vec![("cleanup", J::Bool(data.is_cleanup)), ("stmts", J::Arr(stmts)), ("term", term)]));
        }
        J::obj(vec![
            ("argc", J::UInt(body.arg_count as u128)),
            ("locals", J::Arr(locals)),
            ("blocks", J::Arr(blocks)),
            ("phase", jstr(&body.phase)),
        ])
    }

    fn place(&mut self, inst: Instance<'tcx>, p: &mir::Place<'tcx>) -> J {
        let mut pr = Vec::new();
        for e in p.projection.iter() {
            let j = match e {
                mir::ProjectionElem::Deref => J::Arr(vec![J::s("deref")]),
                mir::ProjectionElem::Field(f, t) => {
                    let t = self.mono(inst, t);
                    J::Arr(vec![J::s("field"), J::UInt(f.as_usize() as u128), self.tid(t)])
                }
                mir::ProjectionElem::Index(l) => J::Arr(vec![J::s("index"), J::UInt(l.as_usize() as u128)]),
                mir::ProjectionElem::ConstantIndex { offset, min_length, from_end } => J::Arr(vec![
                    J::s("cidx"),
                    J::UInt(offset as u128),
                    J::UInt(min_length as u128),
                    J::Bool(from_end),
                ]),
                mir::ProjectionElem::Subslice { from, to, from_end } => {
                    J::Arr(vec![J::s("subslice"), J::UInt(from as u128), J::UInt(to as u128), J::Bool(from_end)])
                }
                mir::ProjectionElem::Downcast(name, v) => J::Arr(vec![
                    J::s("downcast"),
                    J::UInt(v.as_usize() as u128),
                    J::opt(name, |n| J::s(n.to_string())),
                ]),
                mir::ProjectionElem::OpaqueCast(t) => {
                    let t = self.mono(inst, t);
                    J::Arr(vec![J::s("opaque"), self.tid(t)])
                }
                mir::ProjectionElem::UnwrapUnsafeBinder(t) => {
                    let t = self.mono(inst, t);
                    J::Arr(vec![J::s("unwrap_binder"), self.tid(t)])
                }
            };
            pr.push(j);
        }
        J::obj(vec![("l", J::UInt(p.local.as_usize() as u128)), ("pr", J::Arr(pr))])
    }

    fn scalar(&mut self, s: Scalar) -> J {
        match s {
            Scalar::Int(si) => J::obj(vec![
                ("k", J::s("int")),
                ("v", J::UInt(si.to_bits(si.size()))),
                ("size", J::UInt(si.size().bytes() as u128)),
            ]),
            Scalar::Ptr(ptr, _) => {
                let (prov, off) = ptr.into_raw_parts();
                let a = self.alloc_id(prov.alloc_id());
                J::obj(vec![("k", J::s("ptr")), ("alloc", J::UInt(a as u128)), ("off", J::UInt(off.bytes() as u128))])
            }
        }
    }

    fn const_val(&mut self, inst: Instance<'tcx>, c: &mir::ConstOperand<'tcx>) -> J {
        let tcx = self.tcx;
        let k = self.mono(inst, c.const_);
        let ty = k.ty();
        let tyj = self.tid(ty);
        let v = match k.eval(tcx, self.env, c.span) {
            Ok(ConstValue::Scalar(s)) => self.scalar(s),
            Ok(ConstValue::ZeroSized) => J::obj(vec![("k", J::s("zst"))]),
            Ok(ConstValue::Slice { alloc_id, meta }) => {
                let a = self.alloc_id(alloc_id);
                J::obj(vec![("k", J::s("slice")), ("alloc", J::UInt(a as u128)), ("len", J::UInt(meta as u128))])
            }
            Ok(ConstValue::Indirect { alloc_id, offset }) => {
                let a = self.alloc_id(alloc_id);
                J::obj(vec![("k", J::s("indirect")), ("alloc", J::UInt(a as u128)), ("off", J::UInt(offset.bytes() as u128))])
            }
            Err(e) => J::obj(vec![("k", J::s("error")), ("dbg", jstr(&e))]),
        };
        J::obj(vec![("k", J::s("const")), ("ty", tyj), ("v", v)])
    }

    fn operand(&mut self, inst: Instance<'tcx>, op: &mir::Operand<'tcx>) -> J {
        match op {
            mir::Operand::Copy(p) => J::obj(vec![("k", J::s("copy")), ("p", self.place(inst, p))]),
            mir::Operand::Move(p) => J::obj(vec![("k", J::s("move")), ("p", self.place(inst, p))]),
            mir::Operand::Constant(c) => self.const_val(inst, c),
            mir::Operand::RuntimeChecks(rc) => J::obj(vec![("k", J::s("runtime_checks")), ("what", jstr(rc))]),
        }
    }

    fn dump_stmt(&mut self, inst: Instance<'tcx>, _body: &mir::Body<'tcx>, st: &mir::Statement<'tcx>) -> Option<J> {
        let sp = self.span(st.source_info.span);
        let j = match &st.kind {
            mir::StatementKind::Assign(b) => {
                let (p, r) = &**b;
                J::obj(vec![("k", J::s("assign")), ("p", self.place(inst, p)), ("r", self.rvalue(inst, r)), ("sp", sp)])
            }
            mir::StatementKind::SetDiscriminant { place, variant_index } => J::obj(vec![
                ("k", J::s("setdiscr")),
                ("p", self.place(inst, place)),
                ("v", J::UInt(variant_index.as_usize() as u128)),
                ("sp", sp),
            ]),
            mir::StatementKind::StorageLive(l) => J::obj(vec![("k", J::s("live")), ("l", J::UInt(l.as_usize() as u128))]),
            mir::StatementKind::StorageDead(l) => J::obj(vec![("k", J::s("dead")), ("l", J::UInt(l.as_usize() as u128))]),
            mir::StatementKind::Intrinsic(b) => match &**b {
                mir::NonDivergingIntrinsic::Assume(op) => {
                    J::obj(vec![("k", J::s("assume")), ("o", self.operand(inst, op)), ("sp", sp)])
                }
                mir::NonDivergingIntrinsic::CopyNonOverlapping(c) => J::obj(vec![
                    ("k", J::s("copy_nonoverlapping")),
                    ("src", self.operand(inst, &c.src)),
                    ("dst", self.operand(inst, &c.dst)),
                    ("count", self.operand(inst, &c.count)),
                    ("sp", sp),
                ]),
            },
            mir::StatementKind::Nop
            | mir::StatementKind::FakeRead(..)
            | mir::StatementKind::PlaceMention(..)
            | mir::StatementKind::AscribeUserType(..)
            | mir::StatementKind::Coverage(..)
            | mir::StatementKind::ConstEvalCounter
            | mir::StatementKind::BackwardIncompatibleDropHint { .. } => return None,
        };
        Some(j)
    }

    fn rvalue(&mut self, inst: Instance<'tcx>, r: &mir::Rvalue<'tcx>) -> J {
        match r {
            mir::Rvalue::Use(op, _) => J::obj(vec![("k", J::s("use")), ("o", self.operand(inst, op))]),
            mir::Rvalue::Repeat(op, n) => {
                let n = self.mono(inst, *n);
                J::obj(vec![
                    ("k", J::s("repeat")),
                    ("o", self.operand(inst, op)),
                    ("n", J::opt(n.try_to_target_usize(self.tcx), |v| J::UInt(v as u128))),
                ])
            }
            mir::Rvalue::Ref(_, bk, p) => {
                let bks = match bk {
                    mir::BorrowKind::Shared => "shared",
                    mir::BorrowKind::Fake(_) => "fake",
                    mir::BorrowKind::Mut { .. } => "mut",
                };
                J::obj(vec![("k", J::s("ref")), ("bk", J::s(bks)), ("p", self.place(inst, p))])
            }
            mir::Rvalue::RawPtr(k, p) => {
                J::obj(vec![("k", J::s("rawptr")), ("pk", jstr(k)), ("p", self.place(inst, p))])
            }
            mir::Rvalue::Cast(ck, op, t) => {
                let t = self.mono(inst, *t);
                J::obj(vec![("k", J::s("cast")), ("ck", jstr(ck)), ("o", self.operand(inst, op)), ("ty", self.tid(t))])
            }
            mir::Rvalue::BinaryOp(op, b) => {
                let (a, c) = &**b;
                J::obj(vec![("k", J::s("binop")), ("op", jstr(op)), ("a", self.operand(inst, a)), ("b", self.operand(inst, c))])
            }
            mir::Rvalue::UnaryOp(op, a) => {
                J::obj(vec![("k", J::s("unop")), ("op", jstr(op)), ("a", self.operand(inst, a))])
            }
            mir::Rvalue::Discriminant(p) => J::obj(vec![("k", J::s("discr")), ("p", self.place(inst, p))]),
            mir::Rvalue::Aggregate(ak, ops) => {
                let mut o: Vec<(&str, J)> = vec![("k", J::s("agg"))];
                match &**ak {
                    mir::AggregateKind::Array(t) => {
                        let t = self.mono(inst, *t);
                        o.push(("ak", J::s("array")));
                        o.push(("elem", self.tid(t)));
                    }
                    mir::AggregateKind::Tuple => o.push(("ak", J::s("tuple"))),
                    mir::AggregateKind::Adt(did, vi, args, _, active) => {
                        let args = self.mono(inst, *args);
                        let adt = self.tcx.adt_def(*did);
                        let t = Ty::new_adt(self.tcx, adt, args);
                        o.push(("ak", J::s("adt")));
                        o.push(("ty", self.tid(t)));
                        o.push(("variant", J::UInt(vi.as_usize() as u128)));
                        o.push(("active_field", J::opt(*active, |f| J::UInt(f.as_usize() as u128))));
                    }
                    mir::AggregateKind::Closure(did, args) => {
                        let args = self.mono(inst, *args);
                        let t = Ty::new_closure(self.tcx, *did, args);
                        o.push(("ak", J::s("closure")));
                        o.push(("ty", self.tid(t)));
                    }
                    mir::AggregateKind::RawPtr(t, m) => {
                        let t = self.mono(inst, *t);
                        o.push(("ak", J::s("rawptr")));
                        o.push(("pointee", self.tid(t)));
                        o.push(("mut", J::Bool(m.is_mut())));
                    }
                    other => {
                        o.push(("ak", J::s("other")));
                        o.push(("dbg", jstr(other)));
                    }
                }
                let ops: Vec<J> = ops.iter().map(|op| self.operand(inst, op)).collect();
                o.push(("ops", J::Arr(ops)));
                J::obj(o)
            }
            mir::Rvalue::CopyForDeref(p) => J::obj(vec![("k", J::s("use")), ("o", J::obj(vec![("k", J::s("copy")), ("p", self.place(inst, p))]))]),
            mir::Rvalue::ThreadLocalRef(did) => {
                J::obj(vec![("k", J::s("thread_local_ref")), ("path", J::s(self.tcx.def_path_str(*did)))])
            }
            mir::Rvalue::WrapUnsafeBinder(op, _) => J::obj(vec![("k", J::s("use")), ("o", self.operand(inst, op))]),
        }
    }

    fn unwind(&self, u: &mir::UnwindAction) -> J {
        match u {
            mir::UnwindAction::Continue => J::s("continue"),
            mir::UnwindAction::Unreachable => J::s("unreachable"),
            mir::UnwindAction::Terminate(_) => J::s("terminate"),
            mir::UnwindAction::Cleanup(bb) => J::UInt(bb.as_usize() as u128),
        }
    }

    fn dump_term(&mut self, inst: Instance<'tcx>, body: &mir::Body<'tcx>, t: &mir::Terminator<'tcx>) -> J {
        let tcx = self.tcx;
        let sp = self.span(t.source_info.span);
        let mut o: Vec<(&str, J)> = Vec::new();
        match &t.kind {
            mir::TerminatorKind::Goto { target } => {
                o.push(("k", J::s("goto")));
                o.push(("t", J::UInt(target.as_usize() as u128)));
            }
            mir::TerminatorKind::SwitchInt { discr, targets } => {
                o.push(("k", J::s("switch")));
                o.push(("o", self.operand(inst, discr)));
                let dty = self.mono(inst, discr.ty(body, tcx));
                o.push(("ty", self.tid(dty)));
                let mut ts = Vec::new();
                for (v, bb) in targets.iter() {
                    ts.push(J::Arr(vec![J::UInt(v), J::UInt(bb.as_usize() as u128)]));
                }
                o.push(("targets", J::Arr(ts)));
                o.push(("otherwise", J::UInt(targets.otherwise().as_usize() as u128)));
            }
            mir::TerminatorKind::UnwindResume => o.push(("k", J::s("resume"))),
            mir::TerminatorKind::UnwindTerminate(_) => o.push(("k", J::s("terminate"))),
            mir::TerminatorKind::Return => o.push(("k", J::s("return"))),
            mir::TerminatorKind::Unreachable => o.push(("k", J::s("unreachable"))),
            mir::TerminatorKind::Drop { place, target, unwind, .. } => {
                o.push(("k", J::s("drop")));
                o.push(("p", self.place(inst, place)));
                o.push(("t", J::UInt(target.as_usize() as u128)));
                o.push(("unwind", self.unwind(unwind)));
                let pty = self.mono(inst, place.ty(body, tcx).ty);
                o.push(("ty", self.tid(pty)));
                let glue = Instance::resolve_drop_in_place(tcx, pty);
                match glue.def {
                    InstanceKind::DropGlue(_, None) => o.push(("glue", J::Null)),
                    _ => {
                        let id = self.inst_id(glue);
                        o.push(("glue", J::UInt(id as u128)));
                    }
                }
            }
            mir::TerminatorKind::Call { func, args, destination, target, unwind, fn_span, .. } => {
                o.push(("k", J::s("call")));
                let fty = self.mono(inst, func.ty(body, tcx));
                let mut callee = J::Null;
                if let ty::FnDef(did, gargs) = *fty.kind() {
                    match Instance::try_resolve(tcx, self.env, did, gargs) {
                        Ok(Some(ci)) => {
                            let id = self.inst_id(ci);
                            callee = J::UInt(id as u128);
                        }
                        _ => {
                            self.unresolved.push(J::obj(vec![
                                ("in", J::s(format!("{}", inst))),
                                ("callee", J::s(format!("{}", fty))),
                                ("span", self.span(*fn_span)),
                            ]));
                        }
                    }
                    o.push(("callee_path", J::s(tcx.def_path_str(did))));
                } else {
                    // indirect call through a fn pointer or similar
                    o.push(("f", self.operand(inst, func)));
                    self.unresolved.push(J::obj(vec![
                        ("in", J::s(format!("{}", inst))),
                        ("indirect", J::s(format!("{}", fty))),
                        ("span", self.span(*fn_span)),
                    ]));
                }
                o.push(("callee", callee));
                o.push(("fty", self.tid(fty)));
                let a: Vec<J> = args.iter().map(|a| self.operand(inst, &a.node)).collect();
                o.push(("args", J::Arr(a)));
                o.push(("dest", self.place(inst, destination)));
                o.push(("t", J::opt(*target, |bb| J::UInt(bb.as_usize() as u128))));
                o.push(("unwind", self.unwind(unwind)));
            }
            mir::TerminatorKind::Assert { cond, expected, msg, target, unwind } => {
                o.push(("k", J::s("assert")));
                o.push(("c", self.operand(inst, cond)));
                o.push(("expected", J::Bool(*expected)));
                let (mk, mops): (String, Vec<&mir::Operand<'tcx>>) = match &**msg {
                    mir::AssertKind::BoundsCheck { len, index } => ("BoundsCheck".into(), vec![len, index]),
                    mir::AssertKind::Overflow(op, a, b) => (format!("Overflow({:?})", op), vec![a, b]),
                    mir::AssertKind::OverflowNeg(a) => ("OverflowNeg".into(), vec![a]),
                    mir::AssertKind::DivisionByZero(a) => ("DivisionByZero".into(), vec![a]),
                    mir::AssertKind::RemainderByZero(a) => ("RemainderByZero".into(), vec![a]),
                    mir::AssertKind::MisalignedPointerDereference { required, found } => {
                        ("MisalignedPointerDereference".into(), vec![required, found])
                    }
                    mir::AssertKind::NullPointerDereference => ("NullPointerDereference".into(), vec![]),
                    mir::AssertKind::InvalidEnumConstruction(a) => ("InvalidEnumConstruction".into(), vec![a]),
                    other => (format!("{:?}", other), vec![]),
                };
                o.push(("msg", J::s(mk)));
                let mo: Vec<J> = mops.into_iter().map(|m| self.operand(inst, m)).collect();
                o.push(("msg_ops", J::Arr(mo)));
                o.push(("t", J::UInt(target.as_usize() as u128)));
                o.push(("unwind", self.unwind(unwind)));
            }
            mir::TerminatorKind::FalseEdge { real_target, .. } => {
                o.push(("k", J::s("goto")));
                o.push(("t", J::UInt(real_target.as_usize() as u128)));
            }
            mir::TerminatorKind::FalseUnwind { real_target, .. } => {
                o.push(("k", J::s("goto")));
                o.push(("t", J::UInt(real_target.as_usize() as u128)));
            }
            other => {
                o.push(("k", J::s("other")));
                o.push(("dbg", jstr(other)));
            }
        }
        o.push(("sp", sp));
        J::obj(o)
    }
}
