// mirdump — rustc_private driver that exports the monomorphic MIR cone of the crate under
// analysis (httparse) as one JSON fact file.  Injected with RUSTC_WORKSPACE_WRAPPER under
// `cargo +nightly check`; behaves like plain rustc for every crate, and additionally writes
// $MIRDUMP_OUT when the crate being compiled is named $MIRDUMP_CRATE (default "httparse").
//
// No function of the analysed crate is executed: everything below reads the type-checked
// program (MIR bodies, resolved callees, layouts, compiler-evaluated constants).
#![feature(rustc_private)]
#![allow(clippy::all)]

extern crate rustc_abi;
extern crate rustc_data_structures;
extern crate rustc_driver;
extern crate rustc_hir;
extern crate rustc_interface;
extern crate rustc_middle;
extern crate rustc_session;
extern crate rustc_span;

mod json;
mod dump;

use rustc_driver::Compilation;
use rustc_middle::ty::TyCtxt;

struct Cb;

impl rustc_driver::Callbacks for Cb {
    fn after_analysis<'tcx>(
        &mut self,
        _compiler: &rustc_interface::interface::Compiler,
        tcx: TyCtxt<'tcx>,
    ) -> Compilation {
        let want = std::env::var("MIRDUMP_CRATE").unwrap_or_else(|_| "httparse".to_string());
        let name = tcx.crate_name(rustc_hir::def_id::LOCAL_CRATE).to_string();
        if name == want {
            if let Ok(out) = std::env::var("MIRDUMP_OUT") {
                let text = dump::dump(tcx);
                // one write per process
                std::fs::write(&out, text).expect("mirdump: cannot write fact file");
            }
        }
        Compilation::Continue
    }
}

fn main() {
    let mut args: Vec<String> = std::env::args().collect();
    // RUSTC_WORKSPACE_WRAPPER passes the real rustc as argv[1]
    if args.len() > 1 && (args[1].ends_with("rustc") || args[1].contains("/rustc")) {
        args.remove(1);
    }
    let mut cb = Cb;
    rustc_driver::run_compiler(&args, &mut cb);
}
