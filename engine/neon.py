"""NEON intrinsics (aarch64 build configurations) — lane-wise models, see lanes.py.

Only the dozen intrinsics httparse's NEON backend uses, plus close relatives a rewrite would
plausibly reach for.  Each output lane is a function of the same input lane (and constants), so a
256-entry table per lane is a complete evaluation."""
from .absm import Unanalysable, mk_int, TABLES, FULL
from . import lanes as L


def vec16(v):
    if v[0] != "simd" or len(v[1]) != 16:
        raise Unanalysable("NEON operand is not a 16-lane byte vector (%s)" % v[0])
    return v[1]


def load16(m, st, ptr, what):
    if ptr[0] != "ptr":
        raise Unanalysable("%s through %s" % (what, ptr[0]))
    loc = ptr[1]
    if loc[0] == "B":
        return L.simd_load(m, st, ptr, 16, what)
    # a table in a local / constant array
    u8 = None
    for i, ty in enumerate(m.p.types):
        if ty and ty["k"] == "int" and ty["size"] == 1 and not ty["signed"]:
            u8 = i
            break
    lanes_ = []
    for i in range(16):
        v = m.read_loc(st, m.elem_loc(st, loc, mk_int(i, 64)), u8)
        if v[0] not in ("int", "cell"):
            raise Unanalysable("%s of non-byte data" % what)
        lanes_.append(v)
    return ("simd", tuple(lanes_))


NEON2 = {
    "vandq_u8": lambda x, y: x & y,
    "vorrq_u8": lambda x, y: x | y,
    "veorq_u8": lambda x, y: x ^ y,
    "vbicq_u8": lambda x, y: x & (~y & 0xFF),
    "vornq_u8": lambda x, y: x | (~y & 0xFF),
    "vceqq_u8": lambda x, y: 0xFF if x == y else 0,
    "vcleq_u8": lambda x, y: 0xFF if x <= y else 0,
    "vcltq_u8": lambda x, y: 0xFF if x < y else 0,
    "vcgeq_u8": lambda x, y: 0xFF if x >= y else 0,
    "vcgtq_u8": lambda x, y: 0xFF if x > y else 0,
    "vmaxq_u8": lambda x, y: max(x, y),
    "vminq_u8": lambda x, y: min(x, y),
    "vaddq_u8": lambda x, y: (x + y) & 0xFF,
    "vsubq_u8": lambda x, y: (x - y) & 0xFF,
    "vtstq_u8": lambda x, y: 0xFF if (x & y) else 0,
}


def const_arg(inst, idx=0):
    cs = [a for a in inst["args"] if isinstance(a, dict) and a.get("val") is not None]
    if len(cs) <= idx:
        raise Unanalysable("const generic argument of %s not evaluated" % inst["name"])
    return cs[idx]["val"]


def neon_prim(name):
    def f(m, st, inst, args, t):
        if name == "vld1q_u8":
            return load16(m, st, args[0], name)
        if name == "vdupq_n_u8":
            a = args[0]
            if a[0] not in ("int", "cell"):
                raise Unanalysable("vdupq_n_u8 of %s" % a[0])
            return ("simd", tuple(a for _ in range(16)))
        if name in NEON2:
            a, b = vec16(args[0]), vec16(args[1])
            return ("simd", tuple(L.lane_map2(m, st, NEON2[name], x, y) for x, y in zip(a, b)))
        if name == "vmvnq_u8":
            return ("simd", tuple(L.lane_map1(m, st, lambda x: (~x) & 0xFF, x) for x in vec16(args[0])))
        if name in ("vshrq_n_u8", "vshlq_n_u8"):
            n = const_arg(inst)
            fn = (lambda x: x >> n) if name == "vshrq_n_u8" else (lambda x: (x << n) & 0xFF)
            return ("simd", tuple(L.lane_map1(m, st, fn, x) for x in vec16(args[0])))
        if name == "vqtbl1q_u8":
            table, idx = vec16(args[0]), vec16(args[1])
            if not all(x[0] == "int" for x in table):
                raise Unanalysable("vqtbl1q_u8 with a data-dependent table")
            tv = [x[1] & 0xFF for x in table]
            return ("simd", tuple(L.lane_map1(m, st, lambda i: tv[i] if i < 16 else 0, x) for x in idx))
        if name in ("vreinterpretq_u64_u8", "vreinterpretq_u8_u64", "vreinterpretq_u16_u8", "vreinterpretq_u32_u8"):
            return args[0]
        if name == "vgetq_lane_u64":
            lane = const_arg(inst)
            v = vec16(args[0])
            return L.word_from_bytes(m, st, v[8 * lane: 8 * lane + 8], 64, False, "ne")
        if name == "vgetq_lane_u8":
            lane = const_arg(inst)
            return vec16(args[0])[lane]
        if name in ("vmaxvq_u8", "vminvq_u8"):
            raise Unanalysable("horizontal NEON reduction %s" % name)
        raise Unanalysable("NEON intrinsic %s" % name)
    return f


NAMES = ["vld1q_u8", "vdupq_n_u8", "vmvnq_u8", "vshrq_n_u8", "vshlq_n_u8", "vqtbl1q_u8", "vreinterpretq_u64_u8", "vreinterpretq_u8_u64",
         "vgetq_lane_u64", "vgetq_lane_u8", "vmaxvq_u8", "vminvq_u8"] + list(NEON2)


def install(m):
    for n in NAMES:
        f = neon_prim(n)
        for prefix in ("core::arch::aarch64::", "core::core_arch::aarch64::", "core::core_arch::arm_shared::neon::generated::",
                       "core::core_arch::aarch64::neon::generated::", "core::core_arch::arm_shared::neon::"):
            m.prims[prefix + n] = f
