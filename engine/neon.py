"""NEON intrinsics (aarch64 build configurations) — lane-wise models, see lanes.py."""


def install(m):
    pass
