"""Abstract machine over exported MIR (see DESIGN.md §2.2).

An abstract interpreter, not an executor: input bytes are *cells* holding sets of byte values,
the buffer length is unknown, buffer positions are tokens in a chain with (possibly
saturated) gaps, header capacity and configuration bits are symbols.  Control forks on demand
when a decision depends on an abstract quantity; the forked states are refined so that the
decision becomes determined, and the statement is re-executed (all evaluation is side-effect
free until the decision is made).
"""
import sys
from . import mir as M

FULL = (1 << 256) - 1
K_SAT = 3  # saturation bound for exact gaps between position tokens


def mask_of(pred):
    m = 0
    for b in range(256):
        if pred(b):
            m |= 1 << b
    return m


def mask_vals(m):
    out = []
    b = 0
    while m:
        if m & 1:
            out.append(b)
        m >>= 1
        b += 1
    return out


def mask_str(m):
    """Human-readable description of a byte set."""
    vals = mask_vals(m)
    if not vals:
        return "{}"
    if len(vals) == 256:
        return "ANY"
    runs = []
    s = p = vals[0]
    for v in vals[1:]:
        if v == p + 1:
            p = v
            continue
        runs.append((s, p))
        s = p = v
    runs.append((s, p))

    def ch(v):
        if 0x21 <= v <= 0x7E and chr(v) not in "'\\":
            return "'%s'" % chr(v)
        return "0x%02x" % v

    return "{" + ",".join(ch(a) if a == b else "%s-%s" % (ch(a), ch(b)) for a, b in runs) + "}"


class Unanalysable(Exception):
    """A construct outside the modelled fragment: dependent checks fail closed."""

    def __init__(self, what, where=None):
        super().__init__(what)
        self.what = what
        self.where = where


class Fork(Exception):
    """Raised by evaluation when a decision depends on an abstract quantity.
    `choices` is a list of (label, refine) where refine(state) mutates a cloned state so that
    re-executing the current statement takes one determined branch."""

    def __init__(self, choices, why=""):
        super().__init__(why)
        self.choices = choices
        self.why = why


class Violation(Exception):
    """Raised to abandon a path after a violation has been recorded."""


# =============================================================================================
# Values (immutable tuples).
#
#   ('int', v, bits, signed)                concrete integer / bool (bits=1) / char
#   ('cell', cid, tid, bits, signed)        tables[tid][byte value of cell cid]
#   ('sym', terms, const, bits, signed)     linear form: terms=((key, coef),..); key = symbol name or ('c', cell, table)
#   ('ptr', loc)                            thin pointer / reference
#   ('fat', loc, meta, summ)                wide pointer: meta = length value; summ = region summary
#   ('agg', fields)   ('enum', variant, fields)   ('union', field, value)
#   ('simd', lanes)   ('bitv', bits, nbits, signed)
#   ('word', wexpr, bits, signed)  ('wlane', wexpr, i)  ('wtest', wexpr, lane|'all', cmp, const, neg)
#   ('prim', kind, ...)                     opaque state of a modelled library type
#   ('fn', inst_id)   ('zst',)   ('uninit',)   ('hist', tag)   ('top', why)
#
# Locations:
#   ('L', frame_serial, local, path)   ('H', name, path)   ('B', terms, const)   buffer byte
#   ('D', arr, idx_value, path)        header slot         ('S', static_idx, path)
#   ('A', alloc_idx, offset)           constant memory     ('Z', addr)  dangling / zero-sized
# =============================================================================================

UNIT = ("agg", ())
UNINIT = ("uninit",)
REPEAT = object()


def mk_int(v, bits, signed=False):
    if bits:
        v &= (1 << bits) - 1
        if signed and v >> (bits - 1):
            v -= 1 << bits
    return ("int", v, bits, signed)


TRUE = ("int", 1, 1, False)
FALSE = ("int", 0, 1, False)


def mk_bool(b):
    return TRUE if b else FALSE


def is_int(v):
    return v[0] == "int"


class Tables:
    """Interned 256-entry function tables."""

    def __init__(self):
        self.ids = {}
        self.tabs = []
        self.ident = self.intern(tuple(range(256)))

    def intern(self, t):
        t = tuple(t)
        i = self.ids.get(t)
        if i is None:
            i = len(self.tabs)
            self.ids[t] = i
            self.tabs.append(t)
        return i

    def get(self, i):
        return self.tabs[i]


TABLES = Tables()


def term_key(sc):
    s = sc[0]
    return (0, s, ()) if isinstance(s, str) else (1, "", s)


def sym_norm(terms, const, bits, signed):
    """Normalise a symbolic linear form; collapse to int when no symbol remains.
    Term keys: strings (position tokens, counters, capacities) or ('c', cell, table)."""
    d = {}
    for s, c in terms:
        d[s] = d.get(s, 0) + c
    t = tuple(sorted(((s, c) for s, c in d.items() if c != 0), key=term_key))
    if not t:
        return mk_int(const, bits, signed)
    return ("sym", t, const, bits, signed)


def sym_of(v):
    """(terms dict, const) of an int or sym value."""
    if v[0] == "int":
        return {}, v[1]
    if v[0] == "sym":
        return dict(v[1]), v[2]
    if v[0] == "cell":
        return {("c", v[1], v[2]): 1}, 0
    raise Unanalysable("not a symbolic integer: %r" % (v[0],))


def sym_add(a, b, sign=1, bits=None, signed=None):
    ta, ca = sym_of(a)
    tb, cb = sym_of(b)
    for s, c in tb.items():
        ta[s] = ta.get(s, 0) + sign * c
    if bits is None:
        src = a if a[0] != "int" else (b if b[0] != "int" else a)
        bits, sg = (src[2], src[3]) if src[0] == "int" else (src[3], src[4])
        if signed is None:
            signed = sg
    elif signed is None:
        signed = False
    return sym_norm(ta.items(), ca + sign * cb, bits, signed)


# =============================================================================================


class Frame:
    __slots__ = ("inst", "block", "stmt", "locals", "dest", "ret_block", "serial", "unwind")

    def __init__(self, inst, serial):
        self.inst = inst  # instance id
        self.block = 0
        self.stmt = 0
        self.locals = {}
        self.dest = None  # location in the caller receiving the return value
        self.ret_block = None
        self.serial = serial
        self.unwind = None

    def clone(self):
        f = Frame.__new__(Frame)
        f.inst = self.inst
        f.block = self.block
        f.stmt = self.stmt
        f.locals = dict(self.locals)
        f.dest = self.dest
        f.ret_block = self.ret_block
        f.serial = self.serial
        f.unwind = self.unwind
        return f


class State:
    """One abstract configuration."""

    def __init__(self):
        self.frames = []
        self.heap = {}  # name -> value (caller-owned objects)
        self.cells = {}  # cid -> mask
        self.ncell = 0
        self.tape = []  # cids ahead of the cursor
        self.eof = False  # True: exactly len(tape) bytes remain
        # a measured look-ahead (tok, idx, back): position token `tok` sits in front of
        # tape[idx+back]; while `run` (a byte-class mask) is set, an unknown number (>= 0) of bytes of
        # that class lies between tape[idx-1] and tape[idx] (unfolded on demand from either end, see
        # Machine.unfold_run); back = number of cells between the run and the token (0 once run is None)
        self.ahead = None
        self.run = None
        # position tokens behind (or at) the cursor, oldest first; gaps[i] = (lo, exact) distance
        # chain[i] -> chain[i+1]; cur_gap = distance chain[-1] -> cursor
        self.chain = ["B"]
        self.gaps = []
        self.cur_gap = (0, True)
        self.ntok = 0
        # window of consumed-but-uncommitted cells: (old_mask, old_len_lo, old_exact, recent cids)
        self.w_old = 0
        self.w_old_len = (0, True)
        self.w_recent = []
        self.w_first = None  # cid of the first byte of the window (kept refinable), or mask
        self.facts = {}  # (symA, symB|None) -> lo : symA - symB >= lo   (None: symA >= lo)
        self.env = {}  # environment choices made so far (config bits, cpu features, ...)
        self.rsyms = {}  # id -> (start terms, start const, len value, stop mask)  rposition symbols
        self.wfacts = []  # constraints on SWAR word expressions
        self.mon = None  # monitor state (immutable tuple / object with clone())
        self.trace = []  # (inst id, block) of fork points, for counterexample reports
        self.nserial = 0
        self.done = None  # final result once the root frame returned
        self.flags = {}

    def clone(self):
        s = State.__new__(State)
        s.frames = [f.clone() for f in self.frames]
        s.heap = dict(self.heap)
        s.cells = dict(self.cells)
        s.ncell = self.ncell
        s.tape = list(self.tape)
        s.eof = self.eof
        s.ahead = self.ahead
        s.run = self.run
        s.chain = list(self.chain)
        s.gaps = list(self.gaps)
        s.cur_gap = self.cur_gap
        s.ntok = self.ntok
        s.w_old = self.w_old
        s.w_old_len = self.w_old_len
        s.w_recent = list(self.w_recent)
        s.w_first = self.w_first
        s.facts = dict(self.facts)
        s.env = dict(self.env)
        s.rsyms = dict(self.rsyms)
        s.wfacts = list(self.wfacts)
        s.mon = self.mon.clone() if self.mon is not None else None
        s.trace = list(self.trace)
        s.nserial = self.nserial
        s.done = self.done
        s.flags = dict(self.flags)
        if "$since" in s.flags:
            s.flags["$since"] = set(s.flags["$since"])
        return s

    # ---- cells / tape ----------------------------------------------------------------------
    def new_cell(self, mask=FULL):
        c = self.ncell
        self.ncell += 1
        self.cells[c] = mask
        return c

    def refine(self, cid, mask):
        m = self.cells[cid] & mask
        self.cells[cid] = m
        return m != 0

    # ---- position tokens -------------------------------------------------------------------
    def cur_tok(self):
        """Token naming the current cursor position (created on demand)."""
        if self.cur_gap == (0, True):
            return self.chain[-1]
        self.ntok += 1
        t = "T%d" % self.ntok
        self.chain.append(t)
        self.gaps.append(self.cur_gap)
        self.cur_gap = (0, True)
        return t

    def tok_dist(self, t):
        """(lo, exact) distance from token t forward to the cursor."""
        try:
            i = self.chain.index(t)
        except ValueError:
            raise Unanalysable("position token %s no longer tracked" % t)
        lo, ex = self.cur_gap
        for g in self.gaps[i:]:
            lo += g[0]
            ex = ex and g[1]
        return lo, ex

    def is_pos(self, s_):
        return isinstance(s_, str) and (s_ == "E" or s_ in self.chain or (self.ahead is not None and s_ == self.ahead[0]))

    def rel_pos(self, terms, const):
        """Bounds (lo, hi, coefsum) of a linear expression over position tokens ('B', 'T<n>',
        'E'): for coefsum 0 the value itself, for coefsum 1 the value relative to the cursor.
        hi/lo None = unbounded.  None if a term is not a tracked position."""
        coefsum = 0
        w = {}
        for s_, c in terms:
            coefsum += c
            w[s_] = w.get(s_, 0) + c
        if coefsum not in (0, 1):
            return None
        # positions in order: chain[0..n-1], CUR, E ; segment k lies between position k and k+1
        if self.ahead is None:
            order = list(self.chain) + ["$CUR", "E"]
            segs = list(self.gaps) + [self.cur_gap, (len(self.tape), self.eof)]
        else:
            tok, idx, back = self.ahead
            order = list(self.chain) + ["$CUR", tok, "E"]
            segs = list(self.gaps) + [self.cur_gap, (idx + back, self.run is None), (len(self.tape) - idx - back, self.eof)]
        for s_ in w:
            if s_ not in order:
                return None
        if coefsum == 1:
            w["$CUR"] = w.get("$CUR", 0) - 1
        # weight of segment k = sum of coefficients of positions after it
        lo = hi = const
        suffix = 0
        for k in range(len(order) - 1, 0, -1):
            suffix += w.get(order[k], 0)
            if suffix == 0:
                continue
            glo, gex = segs[k - 1]
            if suffix > 0:
                lo = None if lo is None else lo + suffix * glo
                hi = None if (hi is None or not gex) else hi + suffix * glo
            else:
                hi = None if hi is None else hi + suffix * glo
                lo = None if (lo is None or not gex) else lo + suffix * glo
        return lo, hi, coefsum

    def token_at(self, back):
        """Ensure a token exists exactly `back` bytes behind the cursor; returns it or None when the
        position falls into an inexact gap."""
        if back == 0:
            return self.cur_tok()
        # walk the chain from the cursor backwards
        dist = self.cur_gap
        if not dist[1] and back > 0:
            return None
        if back < dist[0] or (back == dist[0] and False):
            # split cur_gap: new token between chain[-1] and cursor
            self.ntok += 1
            t = "T%d" % self.ntok
            self.chain.append(t)
            self.gaps.append((dist[0] - back, True))
            self.cur_gap = (back, True)
            return t
        acc = dist[0]
        i = len(self.chain) - 1
        while True:
            if acc == back:
                return self.chain[i]
            if i == 0:
                return None
            g = self.gaps[i - 1]
            if not g[1]:
                return None
            if acc + g[0] > back:
                # split gap i-1 between chain[i-1] and chain[i]
                self.ntok += 1
                t = "T%d" % self.ntok
                d_after = back - acc  # distance from new token to chain[i]
                self.chain.insert(i, t)
                self.gaps[i - 1] = (g[0] - d_after, True)
                self.gaps.insert(i, (d_after, True))
                return t
            acc += g[0]
            i -= 1

    def advance(self, n):
        lo, ex = self.cur_gap
        self.cur_gap = (lo + n, ex)


# =============================================================================================
# The interpreter
# =============================================================================================

CMP_OPS = {"Eq", "Ne", "Lt", "Le", "Gt", "Ge"}


def int_range(bits, signed):
    if signed:
        return -(1 << (bits - 1)), (1 << (bits - 1)) - 1
    return 0, (1 << bits) - 1


def wrap(v, bits, signed):
    v &= (1 << bits) - 1
    if signed and v >> (bits - 1):
        v -= 1 << bits
    return v


def arith(op, a, b, bits, signed):
    """Concrete binary op on mathematical ints -> (result wrapped, overflowed)."""
    if op in ("Add", "AddUnchecked", "AddWithOverflow"):
        r = a + b
    elif op in ("Sub", "SubUnchecked", "SubWithOverflow"):
        r = a - b
    elif op in ("Mul", "MulUnchecked", "MulWithOverflow"):
        r = a * b
    elif op == "BitAnd":
        r = a & b
    elif op == "BitOr":
        r = a | b
    elif op == "BitXor":
        r = a ^ b
    elif op in ("Shl", "ShlUnchecked"):
        r = a << (b % bits) if bits else a << b
    elif op in ("Shr", "ShrUnchecked"):
        r = a >> (b % bits) if bits else a >> b
    elif op == "Div":
        if b == 0:
            return 0, True
        r = abs(a) // abs(b) * (1 if (a < 0) == (b < 0) else -1)
    elif op == "Rem":
        if b == 0:
            return 0, True
        r = abs(a) % abs(b) * (1 if a >= 0 else -1)
    else:
        raise Unanalysable("binary operator %s" % op)
    lo, hi = int_range(bits, signed)
    return wrap(r, bits, signed), not (lo <= r <= hi)


def compare(op, a, b):
    return {"Eq": a == b, "Ne": a != b, "Lt": a < b, "Le": a <= b, "Gt": a > b, "Ge": a >= b}[op]


def bytes_roles(prog):
    """{'start': i, 'end': j, 'cursor': k} for the cursor type `Bytes`: its three raw-pointer fields,
    told apart by what the code does with them rather than by their names -- the field that is
    assigned from another field of the same value is the committed start, the field it is assigned
    from is the cursor, the third pointer is the end.  The names are used when they are the usual ones."""
    for t in prog.types:
        if t and t["k"] == "adt" and M.tail_is(M.norm_path(t["path"]), "Bytes") and t.get("variants"):
            fields = t["variants"][0]["fields"]
            names = {f["name"]: i for i, f in enumerate(fields)}
            if all(n in names for n in ("start", "end", "cursor")):
                return {n: names[n] for n in ("start", "end", "cursor")}
            tid = prog.types.index(t)
            ptrs = [i for i, f in enumerate(fields) if prog.types[f["ty"]]["k"] in ("ptr",)]
            if len(ptrs) != 3:
                return None
            pairs = set()
            for inst in prog.insts:
                b = inst["body"]
                if not (inst["local"] and b):
                    continue

                def field_of(place):
                    # (field index) when the place is <something of type Bytes>.field
                    if not place["pr"] or place["pr"][-1][0] != "field":
                        return None
                    cur = b["locals"][place["l"]]["ty"]
                    for pe in place["pr"][:-1]:
                        ty = prog.types[cur]
                        if pe[0] == "deref":
                            cur = ty.get("to")
                        elif pe[0] == "field":
                            cur = pe[2]
                        else:
                            return None
                        if cur is None:
                            return None
                    return place["pr"][-1][1] if cur == tid else None

                copies = {}  # local -> field it was copied from
                for bl in b["blocks"]:
                    for st_ in bl["stmts"]:
                        if st_["k"] != "assign":
                            continue
                        r = st_["r"]
                        src = None
                        if r["k"] == "use" and r["o"]["k"] in ("copy", "move"):
                            sp = r["o"]["p"]
                            src = field_of(sp)
                            if src is None and not sp["pr"]:
                                src = copies.get(sp["l"])
                        dst = field_of(st_["p"])
                        if dst is not None and src is not None and dst != src:
                            pairs.add((dst, src))
                        elif dst is None and not st_["p"]["pr"] and src is not None:
                            copies[st_["p"]["l"]] = src
            pairs = {(d, s_) for d, s_ in pairs if d in ptrs and s_ in ptrs}
            if len(pairs) != 1:
                return None
            (start, cursor), = pairs
            end = [i for i in ptrs if i not in (start, cursor)][0]
            return {"start": start, "end": end, "cursor": cursor}
    return None


def gcd_(a, b):
    a, b = abs(a), abs(b)
    while b:
        a, b = b, a % b
    return a


class Machine:
    def __init__(self, prog, prims=None, hooks=None):
        self.p = prog
        self.prims = prims or {}
        self.hooks = hooks  # object receiving events: consume/commit/store/ret/obligation/...
        self.static_cache = {}
        self.type_fields_cache = {}
        self.violations = []
        self.vcount = {}
        self.vcfg = {}  # violation key -> set of tuples of options that were on
        self.cfg_decided = set()  # option fields some branch depended on
        self.vdef = {}  # violation key -> {True, False}: default-options reference still alive / already rejecting
        self.veof = {}  # violation key -> {True, False}: seen on paths with / without an observed end of input
        self.stats = {"steps": 0, "forks": 0}
        self.obl = {}  # obligation kind -> [checked, discharged]
        self._bytes_fields = None
        self.shared = {}  # facts shared between paths (e.g. values stored to shared statics)

    # ---- obligations / violations ----------------------------------------------------------
    def oblige(self, st, kind, ok, detail=None, fatal=True):
        e = self.obl.setdefault(kind, [0, 0, None])
        e[0] += 1
        if ok:
            e[1] += 1
            if e[2] is None:
                e[2] = self.where(st)
        else:
            self.violate(st, "obligation:" + kind, detail or "", fatal=fatal)

    def violate(self, st, rule, detail, fatal=True):
        key = (rule, detail)
        n = self.vcount.get(key, 0)
        self.vcount[key] = n + 1
        self.veof.setdefault(key, set()).add(bool(st.flags.get("eof_seen")))
        self.vdef.setdefault(key, set()).add(bool(st.flags.get("$dflt_alive", True)))
        cf = self.vcfg.setdefault(key, set())
        if len(cf) < 256:
            cf.add(tuple(sorted(k[4:] for k, val in st.env.items() if k.startswith("cfg:") and val)))
        if n < 3:
            self.violations.append({"rule": rule, "detail": detail, "where": self.where(st), "stack": self.stack(st), "path": self.describe_path(st)})
        if fatal:
            raise Violation(rule)

    def choose(self, st, name, labels):
        """A one-shot nondeterministic choice (not remembered after it has been used)."""
        key = "$c:" + name
        if key in st.flags:
            return st.flags.pop(key)

        def setv(i):
            def f(s_):
                s_.flags[key] = i
            return f
        raise Fork([(lab, setv(i)) for i, lab in enumerate(labels)], "unknown outcome: " + name)

    def where(self, st):
        if not st.frames:
            return "?"
        fr = st.frames[-1]
        inst = self.p.insts[fr.inst]
        b = inst["body"]["blocks"][fr.block]
        if fr.stmt < len(b["stmts"]):
            sp = b["stmts"][fr.stmt].get("sp")
        else:
            sp = b["term"].get("sp")
        return "%s @ %s" % (inst["npath"], M.span_str(sp))

    def stack(self, st):
        out = []
        for fr in st.frames:
            inst = self.p.insts[fr.inst]
            out.append(inst["npath"])
        return out

    def describe_path(self, st):
        if self.hooks is not None and hasattr(self.hooks, "describe"):
            return self.hooks.describe(st)
        return None

    # ---- types -----------------------------------------------------------------------------
    def ty(self, tid):
        return self.p.types[tid]

    def int_ty(self, tid):
        t = self.p.types[tid]
        k = t["k"]
        if k == "int":
            return t["size"] * 8, t["signed"]
        if k == "bool":
            return 1, False
        if k == "char":
            return 32, False
        return None

    def is_bytes_adt(self, tid):
        t = self.p.types[tid]
        return t["k"] == "adt" and M.tail_is(M.norm_path(t["path"]), "Bytes")

    def bytes_field_index(self, name):
        """Index of the cursor type's `start` / `end` / `cursor` pointer, by *role* (see bytes_roles)."""
        if self._bytes_fields is None:
            self._bytes_fields = bytes_roles(self.p)
            if self._bytes_fields is None:
                raise Unanalysable("anchor missing: type Bytes with its three pointers")
        return self._bytes_fields.get(name)

    def bytes_field_role(self, idx):
        self.bytes_field_index("cursor")
        for k, v in self._bytes_fields.items():
            if v == idx:
                return k
        return None

    def skeleton(self, tid):
        """An uninitialised value with the right shape for aggregate types."""
        t = self.p.types[tid]
        k = t["k"]
        if k == "tuple":
            return ("agg", tuple(self.skeleton(f["ty"]) for f in t["fields"]))
        if k == "adt" and t["adt_kind"] == "struct" and not t.get("simd"):
            return ("agg", tuple(self.skeleton(f["ty"]) for f in t["variants"][0]["fields"]))
        if k == "array" and t.get("len") is not None and t["len"] <= 64:
            return ("agg", tuple(self.skeleton(t["elem"]) for _ in range(t["len"])))
        if k == "closure":
            return ("agg", tuple(self.skeleton(f["ty"]) for f in t["fields"]))
        return UNINIT

    # ---- navigation inside values ----------------------------------------------------------
    def nav(self, st, v, path):
        for e in path:
            k = v[0]
            if isinstance(e, tuple):  # ('ix', value)
                idx = e[1]
                if idx[0] == "int":
                    e = idx[1]
                elif idx[0] == "cell" and k == "agg" and all(x[0] == "int" for x in v[1]):
                    tab = TABLES.get(idx[2])
                    elems = v[1]
                    mask = st.cells[idx[1]]
                    for b in mask_vals(mask):
                        if not (0 <= tab[b] < len(elems)):
                            raise Unanalysable("table index out of range")
                    nt = tuple(elems[tab[b]][1] if 0 <= tab[b] < len(elems) else 0 for b in range(256))
                    return self.mk_cell(st, idx[1], nt, elems[0][2], elems[0][3])
                else:
                    raise Unanalysable("index by abstract value of kind %s" % idx[0])
            if k == "agg":
                if e >= len(v[1]):
                    raise Unanalysable("field index %d out of range in aggregate" % e)
                v = v[1][e]
            elif k == "enum":
                v = v[2][e]
            elif k == "union":
                v = v[2] if True else UNINIT
            elif k in ("uninit", "hist", "top"):
                return v
            elif k == "simd":
                # field 0 of a repr(simd) struct is its lane array
                v = ("agg", v[1])
            else:
                raise Unanalysable("projection into value of kind %s" % k)
        return v

    def upd(self, v, path, new, tid_hint=None):
        if not path:
            return new
        e = path[0]
        if isinstance(e, tuple):
            if e[1][0] != "int":
                raise Unanalysable("store through abstract index")
            e = e[1][1]
        k = v[0]
        if k == "agg":
            f = list(v[1])
            if e >= len(f):
                raise Unanalysable("field index out of range in store")
            f[e] = self.upd(f[e], path[1:], new)
            return ("agg", tuple(f))
        if k == "enum":
            f = list(v[2])
            f[e] = self.upd(f[e], path[1:], new)
            return ("enum", v[1], tuple(f))
        if k == "union":
            return ("union", e, self.upd(v[2] if v[1] == e else UNINIT, path[1:], new))
        if k in ("uninit", "hist"):
            raise Unanalysable("partial store into unshaped value (%s)" % k)
        raise Unanalysable("store into value of kind %s" % k)

    def frame_by_serial(self, st, serial):
        if serial < len(st.frames) and st.frames[serial].serial == serial:
            return st.frames[serial]
        raise Unanalysable("pointer to a dead stack frame")

    # ---- locations -------------------------------------------------------------------------
    def read_loc(self, st, loc, tid):
        k = loc[0]
        if k == "L":
            fr = self.frame_by_serial(st, loc[1])
            root = fr.locals.get(loc[2], UNINIT)
            return self.nav(st, root, loc[3])
        if k == "H":
            return self.nav(st, st.heap[loc[1]], loc[2])
        if k == "B":
            return self.read_buf(st, loc, tid)
        if k == "D":
            return ("hist", "slot")
        if k == "S":
            return self.nav(st, self.static_value(loc[1]), loc[2])
        if k == "A":
            return self.decode_alloc(loc[1], loc[2], tid)
        if k == "K":
            key = ("K", loc[1], loc[2], loc[3])
            v = self.static_cache.get(key)
            if v is None:
                v = self.decode_alloc(loc[1], loc[2], loc[3])
                self.static_cache[key] = v
            return self.nav(st, v, loc[4])
        if k == "U":
            raise Unanalysable("read of an unsized place")
        if k == "Z":
            t = self.ty(tid)
            if t.get("size") == 0:
                return self.skeleton(tid) if self.skeleton(tid) != UNINIT else UNIT
            raise Unanalysable("read through dangling pointer")
        raise Unanalysable("read of location kind %s" % k)

    def write_loc(self, st, loc, v, tid=None):
        k = loc[0]
        if k == "L":
            fr = self.frame_by_serial(st, loc[1])
            if not loc[3]:
                fr.locals[loc[2]] = v
            else:
                root = fr.locals.get(loc[2], UNINIT)
                if root[0] == "uninit":
                    ltid = self.p.insts[fr.inst]["body"]["locals"][loc[2]]["ty"]
                    root = self.skeleton(ltid)
                fr.locals[loc[2]] = self.upd(root, loc[3], v)
            return
        if k == "H":
            if self.hooks is not None:
                self.hooks.on_heap_store(self, st, loc[1], loc[2], v)
            st.heap[loc[1]] = self.upd(st.heap[loc[1]], loc[2], v)
            return
        if k == "D":
            if self.hooks is not None:
                self.hooks.on_slot_store(self, st, loc, v)
            return
        if k == "B":
            self.violate(st, "write-to-input-buffer", "store through a pointer into the caller's input buffer")
        if k == "Z":
            return
        raise Unanalysable("store to location kind %s" % k)

    def elem_loc(self, st, loc0, i):
        """Location of element i of a sequence whose element 0 lives at loc0 (i: int value)."""
        k = loc0[0]
        if k in ("L", "H", "S", "K"):
            path = loc0[-1]
            if not path or not isinstance(path[-1], int):
                if i[0] == "int" and i[1] == 0:
                    return loc0
                raise Unanalysable("element access through non-array pointer")
            if i[0] == "int":
                np_ = path[:-1] + (path[-1] + i[1],)
            else:
                if path[-1] != 0:
                    raise Unanalysable("abstract index into sub-slice")
                np_ = path[:-1] + (("ix", i),)
            return loc0[:-1] + (np_,)
        if k == "B":
            t, c = sym_of(i)
            tt = dict(loc0[1])
            for s, co in t.items():
                tt[s] = tt.get(s, 0) + co
            return ("B", tuple(sorted((s, co) for s, co in tt.items() if co)), loc0[2] + c)
        if k == "D":
            return ("D", loc0[1], sym_add(loc0[2], i), loc0[3])
        if k == "A":
            if i[0] != "int":
                raise Unanalysable("abstract index into constant memory")
            return ("A", loc0[1], loc0[2] + i[1], loc0[3] if len(loc0) > 3 else 1)
        if k == "Z":
            return loc0
        raise Unanalysable("element of location kind %s" % k)

    # ---- buffer reads ----------------------------------------------------------------------
    def buf_rel(self, st, loc):
        """Exact cursor-relative offset of a buffer location, or Unanalysable."""
        r = st.rel_pos(loc[1], loc[2])
        if r is None or r[2] != 1:
            raise Unanalysable("pointer is not a position in the input buffer")
        lo, hi, _ = r
        if lo is None or hi is None or lo != hi:
            return None
        return lo

    def need_tape(self, st, n):
        """Ensure n cells are materialised ahead of the cursor, or raise Fork."""
        if st.run is not None and n > st.ahead[1]:
            self.unfold_run(st)
        have = len(st.tape)
        if have >= n:
            return True
        if st.eof:
            return False
        k = have

        def more(s):
            c = s.new_cell(FULL & ~s.flags.get("tape_excl", 0))
            s.tape.append(c)
            if self.hooks is not None:
                self.hooks.on_materialise(self, s, c)

        def end(s):
            s.eof = True
            if self.hooks is not None:
                self.hooks.on_eof(self, s)

        raise Fork([("more@%d" % k, more), ("eof@%d" % k, end)], "input length")

    def unfold_run(self, st, from_back=False):
        """The measured run of look-ahead bytes is either empty or has one more byte of its class at
        its front (run = eps | byte . run) or at its back (run = eps | run . byte): the two
        refinements of a pending run."""
        mask = st.run

        has = st.flags.get("run_has", 0)  # a byte of this class is known to occur in the run

        def empty(s):
            if has:
                return False
            tok, idx, back = s.ahead
            s.run = None
            s.ahead = (tok, idx + back, 0)

        def more_with(cmask, found):
            def more(s):
                if not cmask:
                    return False
                tok, idx, back = s.ahead
                c = s.new_cell(cmask)
                s.tape.insert(idx, c)
                if from_back:
                    s.ahead = (tok, idx, back + 1)
                else:
                    s.ahead = (tok, idx + 1, back)
                if found:
                    s.flags.pop("run_has", None)
            return more

        if has:
            choices = [("run-continues", more_with(mask & ~has, False)), ("run-continues-with-the-known-byte", more_with(mask & has, True))]
        else:
            choices = [("run-ends", empty), ("run-continues", more_with(mask, False))]
        raise Fork(choices, "length of the measured look-ahead run")

    def ahead_rel(self, st, loc):
        """j when loc is exactly j bytes after (j >= 0) or before (j < 0) the measured-run token."""
        if st.ahead is None or loc[0] != "B":
            return None
        tok = st.ahead[0]
        if dict(loc[1]).get(tok) != 1:
            return None
        rest = tuple((s_, c) for s_, c in loc[1] if s_ != tok)
        if rest:
            r = st.rel_pos(rest, loc[2])
            if r is None or r[2] != 0 or r[0] is None or r[0] != r[1]:
                return None
            return r[0]
        return loc[2]

    def need_after(self, st, total):
        """Ensure len(tape) >= total by materialising cells at the far end (behind any pending run)."""
        if len(st.tape) >= total:
            return True
        if st.eof:
            return False

        def more(s):
            c = s.new_cell(FULL & ~s.flags.get("tape_excl", 0))
            s.tape.append(c)
            if self.hooks is not None:
                self.hooks.on_materialise(self, s, c)

        def end(s):
            s.eof = True
            if self.hooks is not None:
                self.hooks.on_eof(self, s)

        raise Fork([("more-after-run", more), ("eof-after-run", end)], "input length")

    def read_buf(self, st, loc, tid):
        t = self.ty(tid)
        if t["k"] == "int" and t["size"] == 1:
            n = 1
        elif t["k"] == "array" and self.ty(t["elem"])["k"] == "int" and self.ty(t["elem"])["size"] == 1:
            n = t["len"]
        else:
            raise Unanalysable("read of type %s from the input buffer" % t["s"])
        r = self.buf_rel(st, loc)
        cells = []
        if r is None:
            j = self.ahead_rel(st, loc)
            if j is None:
                raise Unanalysable("read at inexact buffer position")
            tok, idx, back = st.ahead
            if j < 0:
                # behind the token: the last bytes of the measured run
                if st.run is not None and -j > back:
                    self.unfold_run(st, from_back=True)
                if idx + back + j < 0:
                    raise Unanalysable("read before the measured look-ahead")
            ok = self.need_after(st, idx + back + j + n)
            self.oblige(st, "deref-in-bounds", ok, "read %d byte(s) after the measured look-ahead run with fewer proven to remain" % (j + n))
            cells = [st.tape[idx + back + j + i] for i in range(n)]
        else:
            for i in range(n):
                cells.append(self.buf_cell(st, r + i))
        u8 = lambda c: self.mk_cell(st, c, TABLES.get(TABLES.ident), 8, False)
        if t["k"] == "int":
            v = u8(cells[0])
            if t["signed"]:
                v = self.cast_int(st, v, 8, True)
            return v
        return ("agg", tuple(u8(c) for c in cells))

    def buf_cell(self, st, r):
        """Cell id at cursor-relative offset r, with the in-bounds obligation."""
        if r >= 0:
            ok = self.need_tape(st, r + 1)
            self.oblige(st, "deref-in-bounds", ok, "read at cursor+%d with only %d byte(s) proven to remain" % (r, len(st.tape)))
            return st.tape[r]
        back = -r
        # behind the cursor: must not be before the buffer start
        blo, bex = st.tok_dist("B")
        self.oblige(st, "deref-in-bounds", back <= blo, "read %d byte(s) before the cursor, %d consumed" % (back, blo))
        if back <= len(st.w_recent):
            return st.w_recent[-back]
        # older than the tracked window: anonymous byte
        return st.new_cell(FULL)

    # ---- cell values -----------------------------------------------------------------------
    def mk_cell(self, st, cid, tab, bits, signed):
        """A value tab[cell]; collapses to an int when constant over the cell's current set."""
        mask = st.cells[cid]
        first = None
        const = True
        m = mask
        b = 0
        while m:
            if m & 1:
                v = tab[b]
                if first is None:
                    first = v
                elif v != first:
                    const = False
                    break
            m >>= 1
            b += 1
        if first is None:
            raise Violation("infeasible")
        if const:
            return mk_int(first, bits, signed)
        if mask != FULL:
            tab = tuple(tab[i] if (mask >> i) & 1 else 0 for i in range(256))
        return ("cell", cid, TABLES.intern(tab), bits, signed)

    def cell_range(self, st, v):
        tab = TABLES.get(v[2])
        vals = [tab[b] for b in mask_vals(st.cells[v[1]])]
        return min(vals), max(vals)

    def partition(self, st, v, keyfn=None):
        """Fork on the value of a single-cell expression (or on keyfn(value) when given: the
        caller only needs to distinguish the classes keyfn induces, e.g. switch targets)."""
        tab = TABLES.get(v[2])
        groups = {}
        rep = {}
        for b in mask_vals(st.cells[v[1]]):
            k = tab[b] if keyfn is None else keyfn(tab[b])
            groups.setdefault(k, 0)
            groups[k] |= 1 << b
            rep[k] = tab[b]
        cid = v[1]
        if len(groups) == 1:
            (k, _), = groups.items()
            return mk_int(rep[k], v[3], v[4])
        choices = []
        for val, m in sorted(groups.items()):
            choices.append(("cell%d=%s" % (cid, mask_str(m)), (lambda mm: (lambda s: s.refine(cid, mm)))(m)))
        raise Fork(choices, "byte class")

    # ---- symbolic integers -----------------------------------------------------------------
    def sym_bounds(self, st, v):
        """(lo, hi) of an int/sym value under the state's facts (None = unbounded)."""
        if v[0] == "int":
            return v[1], v[1]
        terms, const = v[1], v[2]
        pos_terms = []
        other = []
        lo = hi = const
        for s, c in terms:
            if st.is_pos(s):
                pos_terms.append((s, c))
            elif isinstance(s, tuple) and s[0] == "c":
                tab = TABLES.get(s[2])
                vals = [tab[b] for b in mask_vals(st.cells[s[1]])]
                a, b_ = c * min(vals), c * max(vals)
                lo += min(a, b_)
                hi += max(a, b_)
            else:
                other.append((s, c))
        if pos_terms:
            r = st.rel_pos(tuple(pos_terms), 0)
            if r is None:
                return None, None
            plo, phi, coefsum = r
            if coefsum != 0:
                # an absolute address: only known to be a non-null, non-wrapping machine address
                if not other and (all(c > 0 for _, c in pos_terms) or (plo is not None and st.tok_dist("B")[0] + plo + const >= 0)):
                    return 1, None  # not before the buffer start: a non-null address
                return None, None
            lo = None if plo is None else lo + plo
            hi = None if phi is None else hi + phi
        if other:
            olo, ohi = self.other_bounds(st, other)
            lo = None if (lo is None or olo is None) else lo + olo
            hi = None if (hi is None or ohi is None) else hi + ohi
        return lo, hi

    def other_bounds(self, st, other):
        f = st.facts
        if len(other) == 1:
            (s, c), = other
            if isinstance(s, tuple) and s[0] == "@":
                return (1 if c > 0 else None), None
            lo = f.get((s, None))
            hi = f.get((None, s))  # -s >= hi'  => s <= -hi'
            hi = None if hi is None else -hi
            if s in ("N",) or (isinstance(s, str) and (s.startswith("CAP") or s.startswith("LEN") or s.startswith("K") or s.startswith("R"))):
                lo = 0 if lo is None else max(lo, 0)
            if c > 0:
                return (None if lo is None else c * lo), (None if hi is None else c * hi)
            return (None if hi is None else c * hi), (None if lo is None else c * lo)
        if len(other) == 2:
            (a, ca), (b, cb) = other
            if ca == -cb:
                if ca < 0:
                    a, b, ca = b, a, -ca
                lo = f.get((a, b))
                hi = f.get((b, a))
                hi = None if hi is None else -hi
                if lo is None or hi is None:
                    # fall back on unary bounds
                    alo, ahi = self.other_bounds(st, [(a, 1)])
                    blo, bhi = self.other_bounds(st, [(b, 1)])
                    if lo is None and alo is not None and bhi is not None:
                        lo = alo - bhi
                    if hi is None and ahi is not None and blo is not None:
                        hi = ahi - blo
                return (None if lo is None else ca * lo), (None if hi is None else ca * hi)
        return None, None

    def decide_sym_cmp(self, st, op, a, b):
        """Decide `a op b` for int/sym values: returns bool, or raises Fork with refinements."""
        d = sym_add(a, b, -1, bits=0, signed=True)  # a - b as a mathematical integer
        if d[0] == "int":
            return compare(op, d[1], 0)
        lo, hi = self.sym_bounds(st, d)
        res = self.cmp_from_bounds(op, lo, hi)
        if res is not None:
            return res
        # undecided: find something to fork on
        terms = dict(d[1])
        if st.run is not None and terms.get(st.ahead[0], 0) + terms.get("E", 0) != 0:
            # the decision depends on the length of the measured look-ahead run
            self.unfold_run(st)
        if "E" in terms and not st.eof:
            # the decision depends on how much input remains
            self.need_after(st, len(st.tape) + 1)
        other = [(s, c) for s, c in d[1] if not st.is_pos(s)]
        if other and all(isinstance(s, str) for s, _ in other) and len(other) <= 2:
            # fork on the sign of the symbolic difference (capacity / count relations)
            rest = sym_norm([(s, c) for s, c in d[1] if (s, c) not in other], d[2], 0, True)
            if rest[0] == "int":
                k0 = rest[1]
                return self.fork_other(st, op, other, k0)
        self.split_cell_term(st, d)
        raise Unanalysable("cannot decide %s on symbolic integers %s" % (op, self.show_sym(d)))

    def split_cell_term(self, st, v):
        """Fork on the cell with the fewest values among the cell terms of v (if any)."""
        cands = sorted((bin(st.cells[s[1]]).count("1"), s[1]) for s, c in v[1] if isinstance(s, tuple) and s[0] == "c")
        if cands and cands[0][0] <= 64:
            cid = cands[0][1]
            r = self.partition(st, ("cell", cid, TABLES.ident, 8, False))
            # single value: nothing to split on this cell; try the next one
            for n, cid in cands[1:]:
                if n > 1 and n <= 64:
                    self.partition(st, ("cell", cid, TABLES.ident, 8, False))

    def cmp_from_bounds(self, op, lo, hi):
        # compares (value in [lo,hi]) against 0
        if op == "Eq":
            if lo is not None and hi is not None and lo == hi == 0:
                return True
            if (lo is not None and lo > 0) or (hi is not None and hi < 0):
                return False
            return None
        if op == "Ne":
            r = self.cmp_from_bounds("Eq", lo, hi)
            return None if r is None else not r
        if op == "Lt":
            if hi is not None and hi < 0:
                return True
            if lo is not None and lo >= 0:
                return False
            return None
        if op == "Le":
            if hi is not None and hi <= 0:
                return True
            if lo is not None and lo > 0:
                return False
            return None
        if op == "Gt":
            r = self.cmp_from_bounds("Le", lo, hi)
            return None if r is None else not r
        if op == "Ge":
            r = self.cmp_from_bounds("Lt", lo, hi)
            return None if r is None else not r
        raise Unanalysable("comparison %s" % op)

    def fork_other(self, st, op, other, k0):
        """Fork on e = sum(other) + k0 compared with 0, recording the refined fact."""
        if len(other) == 1:
            (s, c), = other
            a, b = (s, None) if c > 0 else (None, s)
            c = abs(c)
        else:
            (a, ca), (b, cb) = other
            if ca != -cb:
                raise Unanalysable("unsupported symbolic comparison")
            if ca < 0:
                a, b = b, a
            c = abs(ca)
        if c != 1:
            raise Unanalysable("scaled symbolic comparison")
        # e = (a - b) + k0 ; thresholds on (a-b)
        lo, hi = self.other_bounds(st, [(x, 1 if i == 0 else -1) for i, x in enumerate((a, b)) if x is not None] if (a is not None and b is not None) else ([(a, 1)] if a is not None else [(b, -1)]))

        def set_lo(v):
            def f(s):
                key = (a, b)
                s.facts[key] = max(s.facts.get(key, v), v)
            return f

        def set_hi(v):
            def f(s):
                key = (b, a)
                s.facts[key] = max(s.facts.get(key, -v), -v)
            return f

        # partition the line of (a-b) at -k0: < -k0, == -k0, > -k0 as needed by op
        t = -k0
        choices = []
        if op in ("Eq", "Ne"):
            if lo is None or lo < t:
                choices.append(("lt", set_hi(t - 1)))
            choices.append(("eq", lambda s: (set_lo(t)(s), set_hi(t)(s))))
            if hi is None or hi > t:
                choices.append(("gt", set_lo(t + 1)))
        elif op in ("Lt", "Ge"):
            choices.append(("lt", set_hi(t - 1)))
            choices.append(("ge", set_lo(t)))
        else:
            choices.append(("le", set_hi(t)))
            choices.append(("gt", set_lo(t + 1)))
        raise Fork(choices, "symbolic count/capacity relation")

    def show_sym(self, v):
        if v[0] == "int":
            return str(v[1])
        parts = []
        for s, c in v[1]:
            parts.append(("" if c == 1 else "-" if c == -1 else "%d*" % c) + (s if isinstance(s, str) else ("f%d(byte#%d)" % (s[2], s[1]) if s[0] == "c" else str(s))))
        if v[2]:
            parts.append(str(v[2]))
        return " + ".join(parts)

    # ---- constants -------------------------------------------------------------------------
    def static_value(self, sidx):
        if sidx in self.static_cache:
            return self.static_cache[sidx]
        s = self.p.statics[sidx]
        if "init" not in s:
            raise Unanalysable("static %s has no evaluated initializer" % s["path"])
        v = self.decode_mem(s["init"], 0, s["ty"])
        self.static_cache[sidx] = v
        return v

    def decode_alloc(self, aidx, off, tid):
        a = self.p.allocs[aidx]
        if a["k"] != "mem":
            raise Unanalysable("read of non-memory allocation")
        return self.decode_mem(a["mem"], off, tid)

    def decode_mem(self, mem, off, tid):
        t = self.ty(tid)
        k = t["k"]
        by = mem["bytes"]
        le = self.p.endian == "little"

        def rd_int(o, n):
            chunk = by[o:o + n]
            if len(chunk) != n:
                raise Unanalysable("constant memory read out of range")
            return int.from_bytes(bytes(chunk), "little" if le else "big")

        if k in ("int", "bool", "char"):
            bits, signed = self.int_ty(tid)
            return mk_int(rd_int(off, t["size"]), bits, signed)
        if k == "array":
            es = self.ty(t["elem"])["size"]
            return ("agg", tuple(self.decode_mem(mem, off + i * es, t["elem"]) for i in range(t["len"])))
        if k == "tuple":
            return ("agg", tuple(self.decode_mem(mem, off + f["off"], f["ty"]) for f in t["fields"]))
        if k == "adt":
            if t["adt_kind"] == "struct":
                return ("agg", tuple(self.decode_mem(mem, off + f["off"], f["ty"]) for f in t["variants"][0]["fields"]))
            if t["adt_kind"] == "enum":
                lv = t.get("layout_variants")
                if lv and lv["k"] == "single":
                    vi = lv["index"]
                elif lv and lv["k"] == "multiple":
                    tag = rd_int(off + lv["tag_off"], lv["tag_size"])
                    enc = lv["enc"]
                    vi = None
                    if enc["k"] == "direct":
                        for i, v in enumerate(t["variants"]):
                            if v["discr"] is not None and (v["discr"] & ((1 << (8 * lv["tag_size"])) - 1)) == tag:
                                vi = i
                    else:
                        rel = (tag - enc["start"]) & ((1 << (8 * lv["tag_size"])) - 1)
                        if rel <= enc["last"] - enc["first"]:
                            vi = enc["first"] + rel
                        else:
                            vi = enc["untagged"]
                    if vi is None:
                        raise Unanalysable("cannot decode enum constant")
                else:
                    raise Unanalysable("cannot decode enum constant layout")
                fs = t["variants"][vi]["fields"]
                return ("enum", vi, tuple(self.decode_mem(mem, off + f["off"], f["ty"]) for f in fs))
            raise Unanalysable("constant of union type")
        if k in ("ref", "ptr"):
            pointee = self.ty(t["to"])
            tgt = None
            for o, a in mem["relocs"]:
                if o == off:
                    tgt = a
            poff = rd_int(off, self.p.ptr_bytes)
            if tgt is None:
                base = ("Z", poff)
            else:
                base = self.alloc_loc(tgt, poff)
            if pointee["k"] in ("slice", "str"):
                ln = rd_int(off + self.p.ptr_bytes, self.p.ptr_bytes)
                return ("fat", base, mk_int(ln, self.p.ptr_bytes * 8), None)
            if base[0] == "A":
                base = ("K", base[1], base[2], t["to"], ())
            return ("ptr", base)
        raise Unanalysable("constant of type %s" % t["s"])

    def alloc_loc(self, aidx, off):
        a = self.p.allocs[aidx]
        if a["k"] == "static":
            return ("S", a["static"], ())
        if a["k"] == "mem":
            return ("A", aidx, off)
        if a["k"] == "fn":
            return ("FN", a["inst"])
        raise Unanalysable("pointer to allocation kind %s" % a["k"])

    def const_value(self, st, c):
        tid = c["ty"]
        t = self.ty(tid)
        v = c["v"]
        k = v["k"]
        if k == "int":
            it = self.int_ty(tid)
            if it is not None:
                return mk_int(v["v"], it[0], it[1])
            if t["k"] in ("ptr", "ref"):
                return ("ptr", ("Z", v["v"]))
            if t["k"] == "adt":
                # scalar-encoded small ADT (e.g. a newtype or fieldless enum constant)
                mem = {"bytes": list(int(v["v"]).to_bytes(v["size"], "little" if self.p.endian == "little" else "big")), "relocs": []}
                return self.decode_mem(mem, 0, tid)
            raise Unanalysable("scalar constant of type %s" % t["s"])
        if k == "zst":
            if t["k"] == "fndef":
                return ("zst", tid)
            if t["k"] == "adt" and t["adt_kind"] == "enum":
                lv = t.get("layout_variants")
                if lv and lv["k"] == "single":
                    vi = lv["index"]
                    return ("enum", vi, tuple(self.skeleton(f["ty"]) for f in t["variants"][vi]["fields"]))
            sk = self.skeleton(tid)
            return sk if sk != UNINIT else ("zst", tid)
        if k == "slice":
            a = self.p.allocs[v["alloc"]]
            ln = v["len"]
            summ = None
            if a["k"] == "mem":
                bs = a["mem"]["bytes"][:ln]
                m = 0
                for b in bs:
                    m |= 1 << b
                summ = ("const", m, tuple(bs))
            return ("fat", ("A", v["alloc"], 0), mk_int(ln, self.p.ptr_bytes * 8), summ)
        if k == "indirect":
            return self.decode_alloc(v["alloc"], v["off"], tid)
        if k == "ptr":
            loc = self.alloc_loc(v["alloc"], v["off"])
            if loc[0] == "FN":
                return ("fn", loc[1])
            if loc[0] == "A" and t["k"] in ("ref", "ptr") and self.ty(t["to"])["k"] not in ("slice", "str"):
                loc = ("K", loc[1], loc[2], t["to"], ())
            return ("ptr", loc)
        raise Unanalysable("constant kind %s" % k)

    # ---- places ----------------------------------------------------------------------------
    def local_ty(self, fr, l):
        return self.p.insts[fr.inst]["body"]["locals"][l]["ty"]

    def place_loc(self, st, fr, place):
        """Resolve a MIR place to (location, type id)."""
        loc = ("L", fr.serial, place["l"], ())
        tid = self.local_ty(fr, place["l"])
        for pe in place["pr"]:
            k = pe[0]
            if k == "deref":
                v = self.read_loc(st, loc, tid)
                t = self.ty(tid)
                if t["k"] in ("ref", "ptr"):
                    tid = t["to"]
                elif t["k"] == "adt" and "Box" in t["path"]:
                    raise Unanalysable("Box deref")
                else:
                    raise Unanalysable("deref of non-pointer type %s" % t["s"])
                if v[0] == "ptr":
                    loc = v[1]
                elif v[0] == "fat":
                    loc = ("U", v[1], v[2], v[3])
                elif v[0] in ("uninit", "hist", "top"):
                    self.violate(st, "deref-of-%s-pointer" % v[0], "dereference of a pointer that is %s" % v[0])
                else:
                    raise Unanalysable("deref of value kind %s" % v[0])
                if loc[0] == "FN":
                    raise Unanalysable("deref of fn pointer")
            elif k == "field":
                t = self.ty(tid)
                idx = pe[1]
                if t["k"] == "adt" and t["adt_kind"] == "union":
                    pass
                loc = self.loc_push(loc, idx)
                tid = pe[2]
            elif k == "downcast":
                pass
            elif k == "index":
                iv = fr.locals.get(pe[1], UNINIT)
                t = self.ty(tid)
                et = t["elem"]
                if loc[0] == "U":
                    # bounds were checked by a preceding Assert in MIR
                    loc = self.elem_loc(st, loc[1], iv)
                else:
                    loc = self.loc_push(loc, ("ix", iv) if iv[0] != "int" else iv[1])
                tid = et
            elif k == "cidx":
                t = self.ty(tid)
                et = t["elem"]
                off, minlen, from_end = pe[1], pe[2], pe[3]
                if from_end:
                    if loc[0] != "U":
                        raise Unanalysable("from_end constant index into a sized place")
                    # element len - off (the pattern's length test precedes it in MIR)
                    loc = self.elem_loc(st, loc[1], sym_add(loc[2], mk_int(off, self.p.ptr_bytes * 8), -1))
                elif loc[0] == "U":
                    loc = self.elem_loc(st, loc[1], mk_int(off, 64))
                else:
                    loc = self.loc_push(loc, off)
                tid = et
            elif k == "opaque":
                tid = pe[1]
            elif k == "subslice" and loc[0] == "U":
                frm, to, from_end = pe[1], pe[2], pe[3]
                pb = self.p.ptr_bytes * 8
                base = self.elem_loc(st, loc[1], mk_int(frm, pb)) if frm else loc[1]
                if from_end:
                    nlen = sym_add(loc[2], mk_int(frm + to, pb), -1)
                else:
                    nlen = mk_int(to - frm, pb)
                summ = loc[3]
                if summ is not None and summ[0] == "reg":
                    # a sub-range: content is a subset; the first byte is the same when nothing is cut at the front
                    summ = ("reg", summ[1], summ[2] if frm == 0 else FULL, None)
                elif summ is not None and summ[0] == "const":
                    summ = ("reg", FULL, FULL, None)
                elif summ is not None and summ[0] != "ahead":
                    summ = None
                loc = ("U", base, nlen, summ)
            else:
                raise Unanalysable("place projection %s" % k)
        return loc, tid

    def loc_push(self, loc, e):
        k = loc[0]
        if k in ("L",):
            return (k, loc[1], loc[2], loc[3] + (e,))
        if k in ("H", "S"):
            return (k, loc[1], loc[2] + (e,))
        if k == "D":
            return (k, loc[1], loc[2], loc[3] + (e,))
        if k == "A":
            raise Unanalysable("field projection into constant memory")
        if k == "K":
            return (k, loc[1], loc[2], loc[3], loc[4] + (e,))
        if k == "B":
            raise Unanalysable("field projection into the input buffer")
        if k == "Z":
            return loc
        if k == "U":
            raise Unanalysable("field of unsized place")
        raise Unanalysable("projection on location kind %s" % k)

    def read_place(self, st, fr, place):
        if not place["pr"]:
            return fr.locals.get(place["l"], UNINIT)
        loc, tid = self.place_loc(st, fr, place)
        return self.read_loc(st, loc, tid)

    def operand(self, st, fr, o):
        k = o["k"]
        if k in ("copy", "move"):
            return self.read_place(st, fr, o["p"])
        if k == "const":
            return self.const_value(st, o)
        if k == "runtime_checks":
            w = o["what"]
            if w == "UbChecks":
                return mk_bool(self.p.ub_checks)
            if w == "OverflowChecks":
                return mk_bool(self.p.overflow_checks)
            return FALSE
        raise Unanalysable("operand kind %s" % k)

    # ---- rvalues ---------------------------------------------------------------------------
    def rvalue(self, st, fr, r, dest_tid):
        k = r["k"]
        if k == "use":
            return self.operand(st, fr, r["o"])
        if k == "ref" or k == "rawptr":
            loc, tid = self.place_loc(st, fr, r["p"])
            if loc[0] == "U":
                return ("fat", loc[1], loc[2], loc[3])
            return ("ptr", loc)
        if k == "cast":
            return self.cast(st, fr, r)
        if k == "binop":
            a = self.operand(st, fr, r["a"])
            b = self.operand(st, fr, r["b"])
            return self.binop(st, r["op"], a, b)
        if k == "unop":
            a = self.operand(st, fr, r["a"])
            return self.unop(st, r["op"], a)
        if k == "discr":
            v = self.read_place(st, fr, r["p"])
            return self.discriminant(st, v, r["p"], fr)
        if k == "agg":
            ops = tuple(self.operand(st, fr, o) for o in r["ops"])
            ak = r["ak"]
            if ak in ("tuple", "array", "closure"):
                return ("agg", ops)
            if ak == "adt":
                t = self.ty(r["ty"])
                if t.get("simd"):
                    return ("simd", ops[0][1]) if ops and ops[0][0] == "agg" else ("simd", ops)
                if t["adt_kind"] == "enum":
                    return ("enum", r["variant"], ops)
                if t["adt_kind"] == "union":
                    return ("union", r["active_field"], ops[0])
                if self.is_bytes_adt(r["ty"]) and self.hooks is not None:
                    self.hooks.on_bytes_new(self, st, ops)
                return ("agg", ops)
            if ak == "rawptr":
                data, meta = ops
                if meta[0] == "agg" and not meta[1]:
                    return data
                if data[0] != "ptr":
                    raise Unanalysable("raw pointer aggregate from %s" % data[0])
                return self.mk_fat(st, data[1], meta)
            raise Unanalysable("aggregate kind %s" % ak)
        if k == "repeat":
            v = self.operand(st, fr, r["o"])
            if r["n"] is None or r["n"] > 64:
                raise Unanalysable("array repeat of length %s" % r["n"])
            return ("agg", tuple(v for _ in range(r["n"])))
        raise Unanalysable("rvalue kind %s" % k)

    def mk_fat(self, st, loc, meta):
        """Wide pointer from (data location, length) with a region summary when it names a
        consumed region of the input buffer."""
        summ = None
        if loc[0] == "B" and self.hooks is not None:
            summ = self.hooks.region_summary(self, st, loc, meta)
        return ("fat", loc, meta, summ)

    def discriminant(self, st, v, place, fr):
        if v[0] == "enum":
            loc, tid = self.place_loc(st, fr, place) if place["pr"] else (None, self.local_ty(fr, place["l"]))
            t = self.ty(tid)
            d = t["variants"][v[1]]["discr"]
            return mk_int(d if d is not None else v[1], 128, False)
        if v[0] in ("uninit", "hist", "top"):
            self.violate(st, "use-of-%s-value" % v[0], "discriminant of a value that is %s" % v[0])
        if v[0] == "agg":
            return mk_int(0, 128, False)
        raise Unanalysable("discriminant of value kind %s" % v[0])

    # ---- unary / casts ---------------------------------------------------------------------
    def unop(self, st, op, a):
        k = a[0]
        if op == "PtrMetadata":
            if k == "fat":
                return a[2]
            if k == "ptr":
                return UNIT
            raise Unanalysable("PtrMetadata of %s" % k)
        if op == "Not":
            if k == "int":
                return mk_int(~a[1], a[2], a[3])
            if k == "cell":
                tab = TABLES.get(a[2])
                bits, signed = a[3], a[4]
                return self.mk_cell(st, a[1], tuple(wrap(~x, bits, signed) for x in tab), bits, signed)
            if k == "env":
                return ("env", a[1], not a[2])
            if k == "wtest":
                return a[:-1] + (not a[-1],)
            if k == "word":
                return ("word", ("not", a[1]), a[2], a[3])
            if k == "bitv":
                return ("bitv", tuple(self.unop(st, "Not", b) if b[0] != "int" else mk_bool(not b[1]) for b in a[1]), a[2], a[3])
            if k == "sym":
                raise Unanalysable("bitwise not of symbolic integer")
        if op == "Neg":
            if k == "int":
                return mk_int(-a[1], a[2], a[3])
        raise Unanalysable("unary %s on %s" % (op, k))

    def cast_int(self, st, v, bits, signed):
        k = v[0]
        if k == "int":
            return mk_int(v[1], bits, signed)
        if k == "cell":
            tab = TABLES.get(v[2])
            return self.mk_cell(st, v[1], tuple(wrap(x, bits, signed) for x in tab), bits, signed)
        if k == "sym":
            if bits == v[3]:
                return ("sym", v[1], v[2], bits, signed)
            lo, hi = self.sym_bounds(st, v)
            tlo, thi = int_range(bits, signed)
            if lo is not None and hi is not None and tlo <= lo and hi <= thi:
                return ("sym", v[1], v[2], bits, signed)
            if bits > v[3] and not v[4]:
                return ("sym", v[1], v[2], bits, signed)
            raise Unanalysable("resizing cast of symbolic integer")
        if k == "bitv":
            b = v[1]
            if bits <= len(b):
                return ("bitv", b[:bits], bits, signed)
            ext = b[-1] if v[3] else FALSE
            return ("bitv", b + tuple(ext for _ in range(bits - len(b))), bits, signed)
        if k == "env":
            return v
        if k == "wlane":
            return v
        if k == "word":
            if bits == v[2]:
                return ("word", v[1], bits, signed)
            from . import lanes
            return mk_int(lanes.word_value(self, st, v)[1], bits, signed)
        raise Unanalysable("integer cast of %s" % k)

    def cast(self, st, fr, r):
        ck = r["ck"]
        v = self.operand(st, fr, r["o"])
        tid = r["ty"]
        t = self.ty(tid)
        if ck == "IntToInt":
            it = self.int_ty(tid)
            return self.cast_int(st, v, it[0], it[1])
        if ck in ("PtrToPtr", "MutToConstPointer", "Subtype") or ck.startswith("PointerCoercion(MutToConstPointer") or ck.startswith("PointerCoercion(ArrayToPointer"):
            if ck.startswith("PointerCoercion(ArrayToPointer"):
                if v[0] == "ptr":
                    return ("ptr", self.loc_push(v[1], 0))
            if v[0] == "fat" and t["k"] in ("ptr", "ref") and self.ty(t["to"])["k"] not in ("slice", "str"):
                return ("ptr", v[1])
            return v
        if ck.startswith("PointerCoercion(Unsize"):
            if v[0] != "ptr":
                raise Unanalysable("unsize of %s" % v[0])
            src_t = self.ty(self.operand_ty(fr, r["o"]))
            arr = self.ty(src_t["to"])
            if arr["k"] != "array":
                raise Unanalysable("unsize coercion to trait object")
            n = arr["len"]
            loc = v[1]
            loc0 = self.loc_push(loc, 0) if loc[0] != "A" else loc
            return ("fat", loc0, mk_int(n, self.p.ptr_bytes * 8), None)
        if ck.startswith("PointerCoercion(ReifyFnPointer") or ck.startswith("PointerCoercion(ClosureFnPointer"):
            if v[0] == "zst":
                ft = self.ty(v[1])
                if "inst" in ft:
                    return ("fn", ft["inst"])
            raise Unanalysable("reify of %s" % (v,))
        if ck in ("PointerExposeProvenance", "Transmute", "PointerWithExposedProvenance"):
            return self.transmute(st, v, self.operand_ty(fr, r["o"]), tid)
        raise Unanalysable("cast kind %s" % ck)

    def operand_ty(self, fr, o):
        if o["k"] == "const":
            return o["ty"]
        p = o["p"]
        tid = self.local_ty(fr, p["l"])
        for pe in p["pr"]:
            k = pe[0]
            if k == "deref":
                tid = self.ty(tid)["to"]
            elif k == "field":
                tid = pe[2]
            elif k in ("index", "cidx"):
                tid = self.ty(tid)["elem"]
            elif k == "opaque":
                tid = pe[1]
        return tid

    def addr_of(self, loc, bits, st=None):
        if loc[0] == "B":
            if st is not None and loc[2] != 0 and len(loc[1]) == 1 and loc[1][0][1] == 1 and loc[1][0][0] != "E":
                # name the position by a token of its own, so that integers derived from the
                # address stay differences of positions instead of collapsing to constants
                r = st.rel_pos(loc[1], loc[2])
                if r is not None and r[0] is not None and r[0] == r[1] and r[0] <= 0:
                    t = st.token_at(-r[0])
                    if t is not None:
                        return ("sym", ((t, 1),), 0, bits, False)
            return sym_norm(loc[1], loc[2], bits, False)
        if loc[0] == "Z":
            return mk_int(loc[1], bits)
        align = 1
        try:
            if loc[0] == "L" and st is not None and not loc[3]:
                fr = self.frame_by_serial(st, loc[1])
                align = self.ty(self.local_ty(fr, loc[2])).get("align", 1)
            elif loc[0] == "D" and not loc[3]:
                for t in self.p.types:
                    if t and t["k"] == "adt" and M.tail_is(M.norm_path(t["path"]), "Header"):
                        align = t.get("align", 1)
            elif loc[0] == "H" and not loc[2]:
                align = 8
        except Unanalysable:
            align = 1
        return ("sym", ((("@",) + tuple(str(x) for x in loc[:3]) + (align,), 1),), 0, bits, False)

    def transmute(self, st, v, src_tid, dst_tid):
        s, d = self.ty(src_tid), self.ty(dst_tid)
        pb = self.p.ptr_bytes * 8
        if s["k"] in ("ptr", "ref") and d["k"] == "int":
            if v[0] == "ptr":
                return self.addr_of(v[1], d["size"] * 8, st)
            if v[0] == "fat":
                return self.addr_of(v[1], d["size"] * 8, st)
            raise Unanalysable("address of value kind %s" % v[0])
        if s["k"] == "int" and d["k"] in ("ptr", "ref"):
            if v[0] == "sym":
                return ("ptr", ("B", v[1], v[2]))
            if v[0] == "int":
                return ("ptr", ("Z", v[1]))
        if s["k"] in ("ptr", "ref") and d["k"] in ("ptr", "ref"):
            return v
        if s["k"] == "array" and d["k"] == "int" and v[0] == "agg":
            from . import lanes
            return lanes.word_from_bytes(self, st, v[1], d["size"] * 8, d["signed"])
        if s["k"] == "int" and d["k"] == "array":
            from . import lanes
            return lanes.word_to_bytes(self, st, v, d["len"])
        if d["k"] == "adt" and s["k"] in ("ptr", "ref"):
            # e.g. *mut T -> NonNull<T>
            return ("agg", (v,))
        if s["k"] == "adt" and d["k"] in ("ptr", "ref") and v[0] == "agg" and len(v[1]) == 1:
            return v[1][0]
        if s.get("simd") or d.get("simd"):
            from . import lanes
            return lanes.simd_transmute(self, st, v, s, d)
        if s["k"] == d["k"] == "adt" and s["path"] == d["path"]:
            return v
        if "fmt::" in d["s"] or "fmt::" in s["s"]:
            # construction of a panic message (fmt::Arguments): opaque; any use of it alarms
            return ("top", "transmute:%s" % d["s"])
        raise Unanalysable("transmute %s -> %s" % (s["s"], d["s"]))

    # ---- binary operators ------------------------------------------------------------------
    def binop(self, st, op, a, b):
        ka, kb = a[0], b[0]
        with_ovf = op.endswith("WithOverflow")
        if ka == "int" and kb == "int":
            if op in CMP_OPS:
                return mk_bool(compare(op, a[1], b[1]))
            if op == "Offset":
                raise Unanalysable("Offset on integers")
            bits, signed = a[2], a[3]
            if op in ("Shl", "Shr", "ShlUnchecked", "ShrUnchecked"):
                r, _ = arith(op, a[1], b[1], bits, signed)
                return mk_int(r, bits, signed)
            r, ovf = arith(op, a[1], b[1], bits, signed)
            if with_ovf:
                return ("agg", (mk_int(r, bits, signed), mk_bool(ovf)))
            if op.endswith("Unchecked"):
                self.oblige(st, "unchecked-arith", not ovf, "%s overflows" % op)
            if op in ("Div", "Rem") and ovf:
                self.violate(st, "division-by-zero", op)
            return mk_int(r, bits, signed)
        # pointers
        if ka in ("ptr", "fat") or kb in ("ptr", "fat"):
            return self.ptr_binop(st, op, a, b)
        if ka == "env" or kb == "env":
            ea = self.concretize(st, a)
            eb = self.concretize(st, b)
            return self.binop(st, op, ea, eb)
        # SWAR words / lanes / bit vectors
        if ka in ("word", "wlane", "wtest", "bitv", "simd") or kb in ("word", "wlane", "wtest", "bitv", "simd"):
            from . import lanes
            return lanes.binop(self, st, op, a, b)
        # symbolic integers
        if ka == "sym" or kb == "sym":
            if ka not in ("sym", "int", "cell") or kb not in ("sym", "int", "cell"):
                raise Unanalysable("operator %s on %s,%s" % (op, ka, kb))
            if op in CMP_OPS:
                return mk_bool(self.decide_sym_cmp(st, op, a, b))
            bits, signed = (a[3], a[4]) if ka != "int" else (b[3], b[4])
            if op in ("Add", "AddUnchecked", "AddWithOverflow", "Sub", "SubUnchecked", "SubWithOverflow"):
                sign = 1 if op.startswith("Add") else -1
                r = sym_add(a, b, sign, bits, signed)
                lo, hi = self.sym_bounds(st, sym_add(a, b, sign, 0, True))
                tlo, thi = int_range(bits, signed)
                fits = lo is not None and lo >= tlo and (hi is None or hi <= thi)
                # an upper bound is implied for differences of positions / counts (they are sizes
                # of objects that exist in memory), so only the lower bound matters for `-`
                if sign == 1 and hi is None:
                    fits = fits and self.sum_is_size(st, r)
                if with_ovf:
                    return ("agg", (r, FALSE if fits else ("top", "possible-overflow")))
                if op.endswith("Unchecked"):
                    self.oblige(st, "unchecked-arith", fits, "%s may overflow: %s" % (op, self.show_sym(r)))
                elif not fits and self.p.overflow_checks is False:
                    # wrapping in release semantics would be a behaviour change worth reporting
                    self.oblige(st, "no-wrap", fits, "%s may wrap: %s" % (op, self.show_sym(r)))
                return r
            if op in ("Mul", "MulUnchecked", "MulWithOverflow") and (ka == "int" or kb == "int"):
                k_, s_ = (a[1], b) if ka == "int" else (b[1], a)
                ts, cs = sym_of(s_)
                r = sym_norm([(s, c * k_) for s, c in ts.items()], cs * k_, bits, signed)
                lo, hi = self.sym_bounds(st, sym_norm([(s, c * k_) for s, c in ts.items()], cs * k_, 0, True))
                tlo, thi = int_range(bits, signed)
                fits = lo is not None and hi is not None and tlo <= lo and hi <= thi
                if with_ovf:
                    return ("agg", (r, FALSE if fits else ("top", "possible-overflow")))
                if op.endswith("Unchecked"):
                    self.oblige(st, "unchecked-arith", fits, "%s may overflow: %s" % (op, self.show_sym(r)))
                elif not fits:
                    self.oblige(st, "no-wrap", fits, "%s may wrap: %s" % (op, self.show_sym(r)))
                return r
            if op in ("Shl", "ShlUnchecked") and kb == "int" and 0 <= b[1] < bits:
                # x << k is x * 2^k as long as no set bit is shifted out (proved from the bounds;
                # otherwise the value is outside the linear domain)
                k_ = 1 << b[1]
                ts, cs = sym_of(a)
                lo, hi = self.sym_bounds(st, sym_norm([(s, c * k_) for s, c in ts.items()], cs * k_, 0, True))
                tlo, thi = int_range(bits, signed)
                if lo is not None and hi is not None and tlo <= lo and hi <= thi and lo >= 0:
                    return sym_norm([(s, c * k_) for s, c in ts.items()], cs * k_, bits, signed)
                raise Unanalysable("shift of a symbolic integer that may lose bits")
            if op == "BitOr" and ka == "sym" and kb in ("sym", "int", "cell"):
                # (multiple of 2^k) | (value below 2^k) is their sum
                ts, cs = sym_of(a)
                g = cs
                for c in ts.values():
                    g = gcd_(g, c)
                low = g & -g if g else 0  # largest power of two dividing every coefficient and the constant
                blo, bhi = self.sym_bounds(st, b if kb != "cell" else ("sym", ((("c", b[1], b[2]), 1),), 0, b[3], b[4]))
                alo, _ = self.sym_bounds(st, ("sym", a[1], a[2], 0, True))
                if low and blo is not None and bhi is not None and 0 <= blo and bhi < low and alo is not None and alo >= 0:
                    return self.binop(st, "Add", a, b)
                raise Unanalysable("bitwise or of symbolic integers")
            if op == "BitAnd" and (ka == "int" or kb == "int"):
                k_, s_ = (a[1], b) if ka == "int" else (b[1], a)
                # alignment test of an address: addr & (align-1)
                if k_ >= 0 and (k_ & (k_ + 1)) == 0 and s_[0] == "sym":
                    need = k_ + 1
                    if len(s_[1]) == 1 and isinstance(s_[1][0][0], tuple) and s_[1][0][0][0] == "@" and s_[1][0][1] == 1:
                        have = s_[1][0][0][-1]
                        if isinstance(have, int) and have % need == 0:
                            return mk_int(s_[2] & k_, bits, signed)
                    if need == 1:
                        return mk_int(0, bits, signed)
                    return ("top", "alignment-unknown")
            raise Unanalysable("operator %s on symbolic integers" % op)
        # byte-derived integers
        if ka in ("cell", "int") and kb in ("cell", "int"):
            return self.byte_binop(st, op, a, b, with_ovf)
        if ka in ("uninit", "hist", "top") or kb in ("uninit", "hist", "top"):
            bad = a if ka in ("uninit", "hist", "top") else b
            self.violate(st, "use-of-%s-value" % bad[0], "operand of %s is %s" % (op, bad))
        raise Unanalysable("operator %s on %s,%s" % (op, ka, kb))

    def sum_is_size(self, st, r):
        """A sum with unbounded upper end is accepted when it is a difference of buffer
        positions or a count bounded by an array length (sizes of live objects fit usize)."""
        lo, hi = self.sym_bounds(st, r)
        if hi is not None:
            return True
        terms = dict(r[1]) if r[0] == "sym" else {}
        possum = sum(c for s, c in terms.items() if st.is_pos(s))
        rest = [(s, c) for s, c in terms.items() if not st.is_pos(s)]
        return possum == 0 and all(c <= 1 for s, c in rest) and len(rest) <= 1 and r[2] <= 64

    def byte_binop(self, st, op, a, b, with_ovf):
        ka, kb = a[0], b[0]
        bits, signed = (a[3], a[4]) if ka != "int" else ((b[3], b[4]) if kb != "int" else (a[2], a[3]))
        if op in ("Shl", "Shr", "ShlUnchecked", "ShrUnchecked"):
            if kb != "int":
                raise Unanalysable("shift by abstract amount")
        same_cell = (ka == "cell" and kb == "cell" and a[1] == b[1])
        if (ka == "cell" and kb == "int") or (ka == "int" and kb == "cell") or same_cell:
            cid = a[1] if ka == "cell" else b[1]
            ta = TABLES.get(a[2]) if ka == "cell" else None
            tb = TABLES.get(b[2]) if kb == "cell" else None
            if op in CMP_OPS:
                tab = tuple(int(compare(op, ta[i] if ta else a[1], tb[i] if tb else b[1])) for i in range(256))
                return self.mk_cell(st, cid, tab, 1, False)
            res = []
            ovs = []
            for i in range(256):
                r, o = arith(op, ta[i] if ta else a[1], tb[i] if tb else b[1], bits, signed)
                res.append(r)
                ovs.append(int(o))
            rv = self.mk_cell(st, cid, tuple(res), bits, signed)
            if with_ovf:
                return ("agg", (rv, self.mk_cell(st, cid, tuple(ovs), 1, False)))
            if op.endswith("Unchecked") or op in ("Div", "Rem"):
                ov = self.mk_cell(st, cid, tuple(ovs), 1, False)
                self.oblige(st, "unchecked-arith", ov == FALSE, "%s may overflow" % op)
            return rv
        # two different cells: a linear form over both (symbolic integer with cell terms)
        if op in ("Add", "AddUnchecked", "AddWithOverflow", "Sub", "SubUnchecked", "SubWithOverflow") or op in CMP_OPS:
            sa = ("sym", ((("c", a[1], a[2]), 1),), 0, a[3], a[4])
            return self.binop(st, op, sa, b)
        raise Unanalysable("operator %s on two different input bytes" % op)

    def ptr_binop(self, st, op, a, b):
        pb = self.p.ptr_bytes * 8
        if op == "Offset":
            if a[0] != "ptr":
                raise Unanalysable("Offset on wide pointer")
            return ("ptr", self.elem_loc(st, self.as_elem0(a[1]), b))
        if op in CMP_OPS:
            la = a[1] if a[0] in ("ptr", "fat") else None
            lb = b[1] if b[0] in ("ptr", "fat") else None
            if la is None or lb is None:
                raise Unanalysable("comparison of pointer with non-pointer")
            if la[0] == "B" and lb[0] == "B":
                return mk_bool(self.decide_sym_cmp(st, op, self.addr_of(la, pb), self.addr_of(lb, pb)))
            if la == lb:
                return mk_bool(compare(op, 0, 0))
            if la[0] == "D" and lb[0] == "D" and la[1] == lb[1]:
                return mk_bool(self.decide_sym_cmp(st, op, la[2], lb[2]))
            if la[0] == "A" and lb[0] == "A" and la[1] == lb[1]:
                # two positions inside one constant allocation
                return mk_bool(compare(op, la[2], lb[2]))
            if la[0] in ("L", "H", "S", "K") and la[0] == lb[0] and la[:-1] == lb[:-1] and la[-1] and lb[-1] \
                    and la[-1][:-1] == lb[-1][:-1] and isinstance(la[-1][-1], int) and isinstance(lb[-1][-1], int):
                # two elements of one local / caller-owned sequence
                return mk_bool(compare(op, la[-1][-1], lb[-1][-1]))
            if op in ("Eq", "Ne") and la[0] != lb[0]:
                return mk_bool(op == "Ne")
            raise Unanalysable("comparison of unrelated pointers")
        raise Unanalysable("pointer operator %s" % op)

    def as_elem0(self, loc):
        return loc

    def concretize(self, st, v):
        """An int for a value whose outcome can be decided by forking."""
        k = v[0]
        if k == "int":
            return v
        if k == "cell":
            return self.partition(st, v)
        if k == "env":
            name, pos = v[1], v[2]
            if name in st.env:
                return mk_bool(st.env[name] == pos)

            def setv(val):
                def f(s):
                    s.env[name] = val
                return f

            self.cfg_decided.add(name)
            raise Fork([("%s=false" % name, setv(False)), ("%s=true" % name, setv(True))], "environment choice")
        if k in ("wtest", "wlane", "word", "bitv"):
            from . import lanes
            return lanes.concretize(self, st, v)
        if k == "sym":
            lo, hi = self.sym_bounds(st, v)
            if lo is not None and lo == hi:
                return mk_int(lo, v[3], v[4])
            self.split_cell_term(st, v)
            raise Unanalysable("branch on symbolic integer %s" % self.show_sym(v))
        if k in ("uninit", "hist", "top"):
            self.violate(st, "use-of-%s-value" % k, "control flow depends on a value that is %s (%s)" % (k, v[1:] and v[1]))
        raise Unanalysable("branch on value kind %s" % k)

    # ---- statements ------------------------------------------------------------------------
    def exec_stmt(self, st, fr, s):
        k = s["k"]
        if k == "assign":
            p = s["p"]
            if not p["pr"]:
                v = self.rvalue(st, fr, s["r"], None)
                fr.locals[p["l"]] = v
                return
            v = self.rvalue(st, fr, s["r"], None)
            loc, tid = self.place_loc(st, fr, p)
            self.store(st, fr, p, loc, tid, v)
            return
        if k == "live":
            return
        if k == "dead":
            fr.locals.pop(s["l"], None)
            return
        if k == "setdiscr":
            loc, tid = self.place_loc(st, fr, s["p"])
            old = self.read_loc(st, loc, tid)
            t = self.ty(tid)
            if old[0] == "enum":
                self.write_loc(st, loc, ("enum", s["v"], old[2]))
            else:
                n = len(t["variants"][s["v"]]["fields"])
                self.write_loc(st, loc, ("enum", s["v"], tuple(UNINIT for _ in range(n))))
            return
        if k == "assume":
            v = self.operand(st, fr, s["o"])
            if v == FALSE:
                self.violate(st, "assume-false", "assume(false) reached")
            return
        if k == "copy_nonoverlapping":
            raise Unanalysable("copy_nonoverlapping")
        raise Unanalysable("statement kind %s" % k)

    def store(self, st, fr, place, loc, tid, v):
        """Store through a projected place; detects the cursor/start fields of Bytes."""
        pr = place["pr"]
        if pr and pr[-1][0] == "field":
            # parent type of the last field projection
            ptid = self.local_ty(fr, place["l"])
            for pe in pr[:-1]:
                if pe[0] == "deref":
                    ptid = self.ty(ptid)["to"]
                elif pe[0] == "field":
                    ptid = pe[2]
                elif pe[0] in ("index", "cidx"):
                    ptid = self.ty(ptid)["elem"]
            if self.is_bytes_adt(ptid) and self.hooks is not None:
                fname = self.bytes_field_role(pr[-1][1]) or self.ty(ptid)["variants"][0]["fields"][pr[-1][1]]["name"]
                self.hooks.on_bytes_field_store(self, st, fname, loc, v)
        self.write_loc(st, loc, v, tid)

    # ---- terminators -----------------------------------------------------------------------
    def exec_term(self, st, fr, t):
        k = t["k"]
        if k == "goto":
            self.goto(st, fr, t["t"])
            return
        if k == "switch":
            v = self.operand(st, fr, t["o"])
            if v[0] == "word":
                from . import lanes
                i = lanes.switch_word(self, st, v, t["targets"])
                self.goto(st, fr, t["targets"][i][1] if i is not None else t["otherwise"])
                return
            if v[0] == "cell":
                bits = self.int_ty(t["ty"])[0]
                tmap = {tv: bb for tv, bb in t["targets"]}
                c = self.partition(st, v, lambda x: tmap.get(x & ((1 << bits) - 1), -1))
            else:
                c = self.concretize(st, v)
            val = c[1]
            if val < 0:
                bits = self.int_ty(t["ty"])
                val &= (1 << bits[0]) - 1
            for tv, bb in t["targets"]:
                if tv == val:
                    self.goto(st, fr, bb)
                    return
            self.goto(st, fr, t["otherwise"])
            return
        if k == "return":
            self.do_return(st)
            return
        if k == "call":
            self.do_call(st, fr, t)
            return
        if k == "assert":
            c = self.operand(st, fr, t["c"])
            if c[0] == "top":
                # reported (C01, C19 panic clause) but not fatal: the path on which the assertion
                # holds goes on, so that what the code does *after* it is still compared with the
                # reference (seeded change C03-K hid a framing change behind an unprovable `start + 1`)
                self.oblige(st, "assert:" + t["msg"], False, "cannot prove %s never fails (%s)" % (t["msg"], c[1]), fatal=False)
                self.goto(st, fr, t["t"])
                return
            c = self.concretize(st, c)
            ok = (c[1] != 0) == t["expected"]
            self.oblige(st, "assert:" + t["msg"], ok, "%s can fail" % t["msg"])
            self.goto(st, fr, t["t"])
            return
        if k == "drop":
            if t.get("glue") is None:
                self.goto(st, fr, t["t"])
                return
            loc, tid = self.place_loc(st, fr, t["p"])
            self.push_frame(st, t["glue"], [("ptr", loc)], None, t["t"])
            return
        if k == "unreachable":
            self.violate(st, "unreachable-reached", "MIR `unreachable` terminator is reachable")
        if k in ("resume", "terminate"):
            raise Unanalysable("unwinding path explored")
        raise Unanalysable("terminator kind %s" % k)

    def goto(self, st, fr, bb):
        fr.block = bb
        fr.stmt = 0

    def push_frame(self, st, iid, args, dest, ret_block):
        inst = self.p.insts[iid]
        body = inst["body"]
        if body is None:
            raise Unanalysable("call to function without MIR body and without a model: %s" % inst["name"])
        if len(st.frames) > 40:
            raise Unanalysable("call depth exceeded (recursion?)")
        fr = Frame(iid, len(st.frames))
        argc = body["argc"]
        if len(args) != argc:
            # rust-call ABI: last argument is a tuple to be spread
            if len(args) == 2 and args[1][0] == "agg" and 1 + len(args[1][1]) == argc:
                args = [args[0]] + list(args[1][1])
            elif len(args) == 1 and args[0][0] == "agg" and len(args[0][1]) == argc:
                args = list(args[0][1])
            else:
                raise Unanalysable("argument count mismatch calling %s" % inst["name"])
        elif argc == 2 and args[1][0] == "agg" and len(args[1][1]) == 1 and "{closure#" in inst["npath"] \
                and self.ty(body["locals"][2]["ty"])["k"] not in ("tuple", "adt"):
            # rust-call ABI with a one-element argument tuple (a closure called through Fn*::call)
            args = [args[0], args[1][1][0]]
        for i, a in enumerate(args):
            fr.locals[i + 1] = a
        fr.dest = dest
        fr.ret_block = ret_block
        st.frames.append(fr)
        if self.hooks is not None:
            self.hooks.on_enter(self, st, inst)

    def do_return(self, st):
        fr = st.frames.pop()
        rv = fr.locals.get(0, UNIT)
        inst = self.p.insts[fr.inst]
        if self.hooks is not None:
            self.hooks.on_leave(self, st, inst, rv)
        if not st.frames:
            st.done = rv
            return
        caller = st.frames[-1]
        if fr.dest is not None:
            self.write_loc(st, fr.dest, rv)
        if fr.ret_block is None:
            raise Unanalysable("return from diverging call")
        caller.block = fr.ret_block
        caller.stmt = 0

    def do_call(self, st, fr, t):
        args = [self.operand(st, fr, a) for a in t["args"]]
        iid = t["callee"]
        if iid is None:
            f = self.operand(st, fr, t["f"]) if "f" in t else None
            if f is not None and f[0] == "fn":
                iid = f[1]
            else:
                raise Unanalysable("indirect call through %s" % (f[0] if f else "?"))
        inst = self.p.insts[iid]
        dest_loc = None
        # target-feature obligation (C01 v / C13): also when the callee is replaced by its summary
        tf = inst.get("target_features") or []
        if tf and inst["local"] and self.hooks is not None:
            self.hooks.on_target_feature_call(self, st, inst, tf)
        prim = self.prims.get(inst["npath"].replace("std::", "core::"))
        if prim is None and inst["crate"] != self.p.f["crate"]:
            prim = self.prims.get("*" + inst["npath"].split("::")[-1]) if False else None
        if prim is not None:
            res = prim(self, st, inst, args, t)
            if res is NotImplemented:
                prim = None
            elif res is REPEAT:
                # a summarised loop consumed one step: stay on this call, let the explorer test coverage
                st.flags["summary_head"] = True
                return
            else:
                if t["t"] is None:
                    raise Violation("diverged")
                dloc, dtid = self.place_loc(st, fr, t["dest"])
                self.write_loc(st, dloc, res, dtid)
                self.goto(st, fr, t["t"])
                return
        if inst["kind"] == "intrinsic" or inst["body"] is None:
            raise Unanalysable("unmodelled leaf function %s" % inst["name"])
        if tf and not inst["local"] and self.hooks is not None:
            self.hooks.on_target_feature_call(self, st, inst, tf)
        dloc, dtid = self.place_loc(st, fr, t["dest"])
        self.push_frame(st, iid, args, dloc, t["t"])

    # ---- driver ----------------------------------------------------------------------------
    def step_block(self, st):
        """Run the current frame until its block's terminator has executed (one block, possibly
        entering a callee).  Raises Fork / Violation / Unanalysable."""
        fr = st.frames[-1]
        blk = self.p.insts[fr.inst]["body"]["blocks"][fr.block]
        stmts = blk["stmts"]
        while fr.stmt < len(stmts):
            self.exec_stmt(st, fr, stmts[fr.stmt])
            fr.stmt += 1
            self.stats["steps"] += 1
        self.exec_term(st, fr, blk["term"])
        self.stats["steps"] += 1
