"""Block-scanner semantics (DESIGN.md §2.3): SWAR words with borrow-propagating arithmetic,
lane-wise SIMD vectors, and bit vectors produced by movemask."""
from .absm import (
    Fork, Unanalysable, Violation, mk_int, mk_bool, TRUE, FALSE, UNIT, TABLES, mask_vals, mask_str, FULL, wrap,
)

# =============================================================================================
# SWAR words
#   ('word', wexpr, bits, signed)    wexpr: ('leaf', lanes) | ('const', v) | (op, a, b) | ('not', a)
#   lanes are in arithmetic order (index 0 = least significant byte)
# =============================================================================================


def effective_le(m, order):
    if order == "le":
        return True
    if order == "be":
        return False
    return m.p.endian == "little"


def word_from_bytes(m, st, vals, bits, signed, order="ne"):
    vals = list(vals)
    if not effective_le(m, order):
        vals = vals[::-1]
    for v in vals:
        if v[0] not in ("int", "cell"):
            raise Unanalysable("word assembled from %s" % v[0])
    if all(v[0] == "int" for v in vals):
        x = 0
        for i, v in enumerate(vals):
            x |= (v[1] & 0xFF) << (8 * i)
        return mk_int(x, bits, signed)
    cids = [v[1] for v in vals if v[0] == "cell"]
    if len(set(cids)) != len(cids):
        raise Unanalysable("word with a repeated byte cell")
    return ("word", ("leaf", tuple(vals)), bits, signed)


def lane_of_int(x, i):
    return (x >> (8 * i)) & 0xFF


def word_to_bytes(m, st, v, n, order="ne"):
    le = effective_le(m, order)
    idx = list(range(n)) if le else list(range(n - 1, -1, -1))
    if v[0] == "int":
        return ("agg", tuple(mk_int(lane_of_int(v[1], i), 8) for i in idx))
    if v[0] != "word":
        raise Unanalysable("to_bytes of %s" % v[0])
    e = v[1]
    if e[0] == "leaf" and not any(leaf_of(f[0]) == e for f in st.wfacts):
        return ("agg", tuple(e[1][i] for i in idx))
    # facts about the whole word (e.g. `word != 0`) must stay visible to tests on its bytes
    return ("agg", tuple(("wlane", e, i) if (e[0] != "leaf" or e[1][i][0] == "cell") else e[1][i] for i in idx))


def wexpr_of(v):
    if v[0] == "int":
        return ("const", v[1])
    if v[0] == "word":
        return v[1]
    raise Unanalysable("word operand of kind %s" % v[0])


WORD_OPS = {"BitAnd": "and", "BitOr": "or", "BitXor": "xor", "WrappingSub": "sub", "WrappingAdd": "add", "Sub": "sub", "Add": "add",
            "SubUnchecked": "sub", "AddUnchecked": "add"}


def binop(m, st, op, a, b):
    ka, kb = a[0], b[0]
    if ka == "bitv" or kb == "bitv":
        return bitv_binop(m, st, op, a, b)
    if ka == "simd" or kb == "simd":
        raise Unanalysable("MIR operator %s on SIMD vector" % op)
    if ka == "wtest" or kb == "wtest":
        # boolean combination: decide both
        ca = m.concretize(st, a)
        cb = m.concretize(st, b)
        return m.binop(st, op, ca, cb)
    if ka == "wlane" or kb == "wlane":
        lane, other = (a, b) if ka == "wlane" else (b, a)
        if other[0] != "int" or op not in ("Eq", "Ne"):
            raise Unanalysable("operator %s on a SWAR result lane" % op)
        return ("wtest", lane[1], lane[2], other[1] & 0xFF, op == "Eq")
    # word operands
    bits = a[2] if ka == "word" else b[2]
    signed = a[3] if ka == "word" else b[3]
    if op in ("Eq", "Ne"):
        w, other = (a, b) if ka == "word" else (b, a)
        if other[0] != "int":
            raise Unanalysable("comparison of two abstract words")
        return ("wtest", w[1], "all", other[1] & ((1 << bits) - 1), op == "Eq")
    if op in WORD_OPS:
        if op in ("Sub", "Add") and m.p.overflow_checks:
            # checked arithmetic on a word would need a whole-word overflow proof
            raise Unanalysable("checked %s on SWAR word" % op)
        return ("word", (WORD_OPS[op], wexpr_of(a), wexpr_of(b)), bits, signed)
    # anything else (shifts, checked arithmetic, multiplication): enumerate the block when it is
    # small enough -- fork the lanes to single values and compute on integers
    ca = word_value(m, st, a)
    cb = word_value(m, st, b)
    return m.binop(st, op, ca, cb)


def eval_concrete(e, nlanes):
    k = e[0]
    if k == "leaf":
        x = 0
        for i, lv in enumerate(e[1]):
            x |= (lv[1] & 0xFF) << (8 * i)
        return x
    if k == "const":
        return e[1] & ((1 << (8 * nlanes)) - 1)
    mask = (1 << (8 * nlanes)) - 1
    if k == "not":
        return (~eval_concrete(e[1], nlanes)) & mask
    a, b = eval_concrete(e[1], nlanes), eval_concrete(e[2], nlanes)
    return {"and": a & b, "or": a | b, "xor": a ^ b, "sub": (a - b) & mask, "add": (a + b) & mask}[k]


def word_value(m, st, v):
    """Concrete integer of a word (forking its byte lanes to single values when the joint
    domain is small); ints pass through."""
    if v[0] == "int":
        return v
    if v[0] != "word":
        raise Unanalysable("word operand of kind %s" % v[0])
    leaf = leaf_of(v[1])
    total = 1
    for lv in leaf[1]:
        if lv[0] == "cell":
            tab = TABLES.get(lv[2])
            total *= len(set(tab[b] for b in mask_vals(st.cells[lv[1]])))
    if total > 8192:
        raise Unanalysable("arithmetic on a byte-packed word with %d possible values" % total)
    lanes2 = []
    for lv in leaf[1]:
        if lv[0] == "cell":
            c = m.partition(st, lv)  # forks until the lane is a single value
            lanes2.append(c)
        else:
            lanes2.append(lv)

    def subst(e):
        if e[0] == "leaf":
            return ("leaf", tuple(lanes2))
        if e[0] == "const":
            return e
        if e[0] == "not":
            return ("not", subst(e[1]))
        return (e[0], subst(e[1]), subst(e[2]))

    return mk_int(eval_concrete(subst(v[1]), v[2] // 8), v[2], v[3])


# ---- lane-serial evaluation -----------------------------------------------------------------
def carry_nodes(e, acc):
    if e[0] in ("sub", "add"):
        carry_nodes(e[1], acc)
        carry_nodes(e[2], acc)
        if e not in acc:
            acc.append(e)
    elif e[0] in ("and", "or", "xor"):
        carry_nodes(e[1], acc)
        carry_nodes(e[2], acc)
    elif e[0] == "not":
        carry_nodes(e[1], acc)


def leaf_of(e):
    if e[0] == "leaf":
        return e
    if e[0] == "const":
        return None
    if e[0] == "not":
        return leaf_of(e[1])
    a = leaf_of(e[1])
    b = leaf_of(e[2])
    if a is not None and b is not None and a != b:
        raise Unanalysable("SWAR expression over two different blocks")
    return a if a is not None else b


def eval_lane(e, i, v, cin, cout, nodes):
    """Byte value of expression e at arithmetic lane i, given leaf lane value v and carries."""
    k = e[0]
    if k == "leaf":
        return v
    if k == "const":
        return (e[1] >> (8 * i)) & 0xFF
    if k == "not":
        return (~eval_lane(e[1], i, v, cin, cout, nodes)) & 0xFF
    a = eval_lane(e[1], i, v, cin, cout, nodes)
    b = eval_lane(e[2], i, v, cin, cout, nodes)
    if k == "and":
        return a & b
    if k == "or":
        return a | b
    if k == "xor":
        return a ^ b
    ni = nodes.index(e)
    if k == "sub":
        r = a - b - cin[ni]
        cout[ni] = 1 if r < 0 else 0
        return r & 0xFF
    if k == "add":
        r = a + b + cin[ni]
        cout[ni] = 1 if r > 255 else 0
        return r & 0xFF
    raise Unanalysable("SWAR node %s" % k)


def norm_expr(e):
    """Expression with the leaf's lanes erased (cache key independent of cell identities)."""
    k = e[0]
    if k == "leaf":
        return ("leaf",)
    if k == "const":
        return e
    if k == "not":
        return ("not", norm_expr(e[1]))
    return (k, norm_expr(e[1]), norm_expr(e[2]))


_LANE_CACHE = {}


def lane_table(ne, nodes, i, cin):
    """For normalised expression ne at lane i with incoming carries cin: tuple over v in 0..255
    of (byte, carries_out)."""
    key = (ne, nodes, i, cin)
    t = _LANE_CACHE.get(key)
    if t is None:
        out = []
        nl = list(nodes)
        for v in range(256):
            cout = list(cin)
            b = eval_lane(ne, i, v, cin, cout, nl)
            out.append((b, tuple(cout)))
        t = tuple(out)
        _LANE_CACHE[key] = t
    return t


def solve(m, st, leaf, facts):
    """facts: list of (expr, lane|'all', const, truth).  Returns None if infeasible, else the
    per-lane projections (list of masks for cell lanes, None for constant lanes)."""
    lanes_ = leaf[1]
    n = len(lanes_)
    nfacts = [(norm_expr(f[0]), f[1], f[2], f[3]) for f in facts]
    nodes = []
    for f in nfacts:
        carry_nodes(f[0], nodes)
    nodes_t = tuple(nodes)
    allf = [f for f in nfacts if f[1] == "all"]
    lanef = {}
    for f in nfacts:
        if f[1] != "all":
            lanef.setdefault(f[1], []).append(f)
    dom = []
    for lv in lanes_:
        if lv[0] == "int":
            dom.append([lv[1] & 0xFF])
        else:
            tab = TABLES.get(lv[2])
            dom.append(sorted(set(tab[b] & 0xFF for b in mask_vals(st.cells[lv[1]]))))
    # every carry node must be advanced at every lane: evaluate the node expressions themselves
    init = (tuple(0 for _ in nodes), tuple(True for _ in allf))
    layers = [{init}]
    trans = []
    for i in range(n):
        nxt = set()
        tr = []
        by_cin = {}
        for s in layers[i]:
            by_cin.setdefault(s[0], []).append(s)
        for cin, states in by_cin.items():
            node_tabs = [lane_table(e, nodes_t, i, cin) for e in nodes]
            lane_tabs = [(lane_table(f[0], nodes_t, i, cin), f[2], f[3]) for f in lanef.get(i, ())]
            all_tabs = [(lane_table(f[0], nodes_t, i, cin), lane_of_int(f[2], i)) for f in allf]
            for v in dom[i]:
                ok = True
                for tab, cst, truth in lane_tabs:
                    if (tab[v][0] == cst) != truth:
                        ok = False
                        break
                if not ok:
                    continue
                cout = list(cin)
                for ni, tab in enumerate(node_tabs):
                    cout[ni] = tab[v][1][ni]
                cout = tuple(cout)
                eqs = [tab[v][0] == cb for tab, cb in all_tabs]
                for s in states:
                    flags = s[1]
                    nf = tuple(flags[j] and eqs[j] for j in range(len(allf)))
                    ns = (cout, nf)
                    nxt.add(ns)
                    tr.append((s, v, ns))
        layers.append(nxt)
        trans.append(tr)
    final = {s for s in layers[n] if all(s[1][j] == f[3] for j, f in enumerate(allf))}
    if not final:
        return None
    good = [None] * (n + 1)
    good[n] = final
    for i in range(n - 1, -1, -1):
        good[i] = {s for (s, v, ns) in trans[i] if ns in good[i + 1]}
    if init not in good[0]:
        return None
    proj = []
    for i in range(n):
        vals = {v for (s, v, ns) in trans[i] if s in good[i] and ns in good[i + 1]}
        lv = lanes_[i]
        if lv[0] == "int":
            proj.append(None)
        else:
            tab = TABLES.get(lv[2])
            mask = 0
            for b in mask_vals(st.cells[lv[1]]):
                if (tab[b] & 0xFF) in vals:
                    mask |= 1 << b
            proj.append(mask)
    return proj


def facts_for(st, leaf):
    return [f for f in st.wfacts if leaf_of(f[0]) == leaf]


def plain_word_test(m, st, e, const, truth, base):
    """Fast path: `word == const` on an unmodified block with only earlier `!=` facts about it."""
    lanes_ = e[1]
    doms = []
    for i, lv in enumerate(lanes_):
        if lv[0] == "int":
            doms.append({lv[1] & 0xFF})
        else:
            tab = TABLES.get(lv[2])
            doms.append(set(tab[b] & 0xFF for b in mask_vals(st.cells[lv[1]])))
    want = [lane_of_int(const, i) for i in range(len(lanes_))]
    excluded = {f[2] for f in base}
    can_true = const not in excluded and all(w in d for w, d in zip(want, doms))
    total = 1
    for d in doms:
        total *= len(d)
        if total > len(excluded) + 2:
            break
    if total > len(excluded) + 1:
        can_false = True
    else:
        import itertools
        can_false = False
        for combo in itertools.product(*doms):
            x = 0
            for i, b in enumerate(combo):
                x |= b << (8 * i)
            if x != const and x not in excluded:
                can_false = True
                break
    if not can_true and not can_false:
        raise Violation("infeasible")
    if not can_false:
        return mk_bool(truth)
    if not can_true:
        return mk_bool(not truth)

    def mk_true(s):
        for lv, w in zip(lanes_, want):
            if lv[0] == "cell":
                tab = TABLES.get(lv[2])
                mask = 0
                for b in mask_vals(s.cells[lv[1]]):
                    if (tab[b] & 0xFF) == w:
                        mask |= 1 << b
                s.refine(lv[1], mask)
        s.wfacts.append((e, "all", const, True))

    def mk_false(s):
        s.wfacts.append((e, "all", const, False))

    raise Fork([("word-eq", mk_true), ("word-ne", mk_false)], "block comparison")


def decide_wtest(m, st, test):
    _, e, lane, const, truth = test
    leaf = leaf_of(e)
    if leaf is None:
        raise Unanalysable("constant SWAR test")
    base = facts_for(st, leaf)
    if e[0] == "leaf" and lane == "all" and all(f[0] == e and f[1] == "all" and f[3] is False for f in base):
        return plain_word_test(m, st, e, const, truth, base)
    fy = (e, lane, const, True)
    fn = (e, lane, const, False)
    py = solve(m, st, leaf, base + [fy])
    pn = solve(m, st, leaf, base + [fn])
    if py is None and pn is None:
        raise Violation("infeasible")
    if pn is None:
        return mk_bool(truth)
    if py is None:
        return mk_bool(not truth)

    def mk(fact, proj):
        def f(s):
            s.wfacts.append(fact)
            for lv, pm in zip(leaf[1], proj):
                if pm is not None:
                    s.refine(lv[1], pm)
        return f

    raise Fork([("swar-true", mk(fy, py)), ("swar-false", mk(fn, pn))], "SWAR block test")


def concretize(m, st, v):
    k = v[0]
    if k == "wtest":
        return decide_wtest(m, st, v)
    if k == "wlane":
        raise Unanalysable("branch on the numeric value of a SWAR lane")
    if k == "word":
        return word_value(m, st, v)
    if k == "bitv":
        # all bits decided?
        x = 0
        for i, b in enumerate(v[1]):
            c = m.concretize(st, b)
            x |= (c[1] & 1) << i
        return mk_int(x, v[2], v[3])
    raise Unanalysable("concretize %s" % k)


def switch_word(m, st, v, targets):
    """Index of the matching switch target for a word value, or None (otherwise)."""
    for i, (tv, bb) in enumerate(targets):
        c = decide_wtest(m, st, ("wtest", v[1], "all", tv & ((1 << v[2]) - 1), True))
        if c[1]:
            return i
    return None


# =============================================================================================
# SIMD vectors: ('simd', lanes) with byte lanes; bit vectors: ('bitv', bits, nbits, signed)
# =============================================================================================
def lane_map2(m, st, f, a, b):
    """Apply a byte function lane-wise to two byte values (int or single-cell)."""
    if a[0] == "int" and b[0] == "int":
        return mk_int(f(a[1] & 0xFF, b[1] & 0xFF), 8)
    if a[0] == "cell" and b[0] == "int":
        ta = TABLES.get(a[2])
        return m.mk_cell(st, a[1], tuple(f(ta[i] & 0xFF, b[1] & 0xFF) for i in range(256)), 8, False)
    if a[0] == "int" and b[0] == "cell":
        tb = TABLES.get(b[2])
        return m.mk_cell(st, b[1], tuple(f(a[1] & 0xFF, tb[i] & 0xFF) for i in range(256)), 8, False)
    if a[0] == "cell" and b[0] == "cell" and a[1] == b[1]:
        ta, tb = TABLES.get(a[2]), TABLES.get(b[2])
        return m.mk_cell(st, a[1], tuple(f(ta[i] & 0xFF, tb[i] & 0xFF) for i in range(256)), 8, False)
    raise Unanalysable("lane operation mixing different input bytes")


def lane_map1(m, st, f, a):
    if a[0] == "int":
        return mk_int(f(a[1] & 0xFF), 8)
    if a[0] == "cell":
        ta = TABLES.get(a[2])
        return m.mk_cell(st, a[1], tuple(f(ta[i] & 0xFF) for i in range(256)), 8, False)
    raise Unanalysable("lane operation on %s" % a[0])


def s8(x):
    return x - 256 if x >= 128 else x


LANE2 = {
    "max_epu8": lambda x, y: max(x, y),
    "min_epu8": lambda x, y: min(x, y),
    "cmpeq_epi8": lambda x, y: 0xFF if x == y else 0,
    "cmpgt_epi8": lambda x, y: 0xFF if s8(x) > s8(y) else 0,
    "cmplt_epi8": lambda x, y: 0xFF if s8(x) < s8(y) else 0,
    "and": lambda x, y: x & y,
    "or": lambda x, y: x | y,
    "xor": lambda x, y: x ^ y,
    "andnot": lambda x, y: (~x & 0xFF) & y,
    "add_epi8": lambda x, y: (x + y) & 0xFF,
    "sub_epi8": lambda x, y: (x - y) & 0xFF,
    "adds_epu8": lambda x, y: min(255, x + y),
    "subs_epu8": lambda x, y: max(0, x - y),
}


def vec(v, n=None):
    if v[0] != "simd":
        raise Unanalysable("SIMD operand of kind %s" % v[0])
    if n is not None and len(v[1]) != n:
        raise Unanalysable("SIMD operand with %d lanes, expected %d" % (len(v[1]), n))
    return v[1]


def simd_load(m, st, ptr, n, what):
    if ptr[0] != "ptr" or ptr[1][0] != "B":
        raise Unanalysable("%s from non-buffer pointer" % what)
    r = m.buf_rel(st, ptr[1])
    if r is None:
        raise Unanalysable("%s at inexact position" % what)
    # bounds obligation for the whole block first (one decision), then the cells
    if r >= 0:
        ok = m.need_tape(st, r + n)
        m.oblige(st, "simd-load-in-bounds", ok, "%s of %d bytes at cursor+%d with %d byte(s) proven to remain" % (what, n, r, len(st.tape)))
    lanes_ = []
    for i in range(n):
        c = m.buf_cell(st, r + i)
        lanes_.append(m.mk_cell(st, c, TABLES.get(TABLES.ident), 8, False))
    return ("simd", tuple(lanes_))


def x86_prim(name):
    base = name.replace("_mm256_", "").replace("_mm_", "")
    n = 32 if name.startswith("_mm256_") else 16

    def f(m, st, inst, args, t):
        check_features(m, st, inst)
        if base in ("set1_epi8",):
            a = args[0]
            if a[0] != "int":
                raise Unanalysable("set1 of abstract value")
            return ("simd", tuple(mk_int(a[1] & 0xFF, 8) for _ in range(n)))
        if base in ("lddqu_si128", "lddqu_si256", "loadu_si128", "loadu_si256"):
            return simd_load(m, st, args[0], n, name)
        if base in ("load_si128", "load_si256"):
            m.violate(st, "aligned-load", "%s requires %d-byte alignment that the caller's buffer does not guarantee" % (name, n))
        if base in ("setzero_si128", "setzero_si256"):
            return ("simd", tuple(mk_int(0, 8) for _ in range(n)))
        key = base
        for suf in ("_si128", "_si256"):
            if key.endswith(suf):
                key = key[: -len(suf)]
        if key in LANE2:
            a, b = vec(args[0], n), vec(args[1], n)
            return ("simd", tuple(lane_map2(m, st, LANE2[key], x, y) for x, y in zip(a, b)))
        if base == "movemask_epi8":
            a = vec(args[0], n)
            bits = tuple(bool_of(lane_map1(m, st, lambda x: (x >> 7) & 1, x)) for x in a)
            bits = bits + tuple(FALSE for _ in range(32 - n))
            return ("bitv", bits, 32, True)
        raise Unanalysable("x86 intrinsic %s" % name)

    return f


def bool_of(v):
    if v[0] == "int":
        return mk_bool(v[1] & 1)
    return ("cell", v[1], v[2], 1, False)


FEATURE_IMPLIES = {
    "avx2": ["avx"], "avx": ["sse4.2"], "sse4.2": ["sse4.1", "popcnt"], "sse4.1": ["ssse3"], "ssse3": ["sse3"], "sse3": ["sse2"], "sse2": ["sse"],
}


def closure_features(fs):
    out = set(fs)
    work = list(fs)
    while work:
        f = work.pop()
        for g in FEATURE_IMPLIES.get(f, ()):
            if g not in out:
                out.add(g)
                work.append(g)
    return out


def available_features(m, st):
    have = set()
    for c in m.p.cfgs:
        if c.startswith('target_feature="'):
            have.add(c[len('target_feature="'):-1])
    for k, v in st.env.items():
        if k.startswith("cpu:") and v:
            have.add(k[4:].replace("sse4_", "sse4."))
    # features of the functions we are inside: entering them was itself obliged (or is the
    # stated precondition of the function under analysis)
    for fr in st.frames:
        for f in m.p.insts[fr.inst].get("target_features") or ():
            have.add(f)
    return closure_features(have)


def check_features(m, st, inst):
    need = set(inst.get("target_features") or [])
    if not need:
        return
    have = available_features(m, st)
    missing = sorted(need - have)
    m.oblige(st, "target-feature-available", not missing,
             "%s needs CPU feature(s) %s that are neither statically enabled nor detected on this path" % (inst["npath"], ",".join(missing)))


# ---- bit vectors ---------------------------------------------------------------------------------
def bitv_binop(m, st, op, a, b):
    if op in ("Shl", "Shr", "ShlUnchecked", "ShrUnchecked"):
        if a[0] != "bitv" or b[0] != "int":
            raise Unanalysable("shift involving bit vector")
        n = a[2]
        k = b[1] % n
        bits = a[1]
        if op.startswith("Shl"):
            nb = tuple(FALSE for _ in range(k)) + bits[: n - k]
        else:
            fill = bits[-1] if a[3] else FALSE
            nb = bits[k:] + tuple(fill for _ in range(k))
        return ("bitv", nb, n, a[3])
    n = a[2] if a[0] == "bitv" else b[2]
    signed = a[3] if a[0] == "bitv" else b[3]

    def bits_of(v):
        if v[0] == "bitv":
            return v[1]
        if v[0] == "int":
            return tuple(mk_bool((v[1] >> i) & 1) for i in range(n))
        raise Unanalysable("bit-vector operand %s" % v[0])

    ba, bb = bits_of(a), bits_of(b)
    if len(ba) != len(bb):
        raise Unanalysable("bit-vector width mismatch")
    if op in ("BitAnd", "BitOr", "BitXor"):
        out = []
        for x, y in zip(ba, bb):
            out.append(bit_op(m, st, op, x, y))
        return ("bitv", tuple(out), n, signed)
    if op in ("Eq", "Ne"):
        # decide bit by bit
        eq = True
        for x, y in zip(ba, bb):
            cx = m.concretize(st, x)
            cy = m.concretize(st, y)
            if cx[1] != cy[1]:
                eq = False
                break
        return mk_bool(eq == (op == "Eq"))
    raise Unanalysable("operator %s on bit vector" % op)


def bit_op(m, st, op, x, y):
    if x[0] == "int" and y[0] == "int":
        r = {"BitAnd": x[1] & y[1], "BitOr": x[1] | y[1], "BitXor": x[1] ^ y[1]}[op]
        return mk_bool(r)
    if x[0] == "int" or y[0] == "int":
        c, v = (x, y) if x[0] == "int" else (y, x)
        if op == "BitAnd":
            return v if c[1] else FALSE
        if op == "BitOr":
            return TRUE if c[1] else v
        if op == "BitXor":
            return m.unop(st, "Not", v) if c[1] else v
    if x[0] == "cell" and y[0] == "cell" and x[1] == y[1]:
        tx, ty_ = TABLES.get(x[2]), TABLES.get(y[2])
        f = {"BitAnd": lambda p, q: p & q, "BitOr": lambda p, q: p | q, "BitXor": lambda p, q: p ^ q}[op]
        return m.mk_cell(st, x[1], tuple(f(tx[i] & 1, ty_[i] & 1) for i in range(256)), 1, False)
    # bits of two different input bytes: decide one of them
    cx = m.concretize(st, x)
    return bit_op(m, st, op, cx, y)


def bit_count(m, st, which, v):
    if v[0] == "int":
        bits = v[2]
        x = v[1] & ((1 << bits) - 1)
        s = format(x, "0%db" % bits)
        if which == "trailing_ones":
            r = len(s) - len(s.rstrip("1"))
        elif which == "trailing_zeros":
            r = len(s) - len(s.rstrip("0"))
        elif which == "leading_zeros":
            r = len(s) - len(s.lstrip("0"))
        elif which == "leading_ones":
            r = len(s) - len(s.lstrip("1"))
        elif which == "count_ones":
            r = s.count("1")
        else:
            raise Unanalysable(which)
        return mk_int(r, 32)
    if v[0] != "bitv":
        raise Unanalysable("%s of %s" % (which, v[0]))
    bits = v[1]
    if which in ("trailing_ones", "trailing_zeros"):
        want = 1 if which == "trailing_ones" else 0
        cnt = 0
        for b in bits:
            c = m.concretize(st, b)  # forks on the first undecided bit only
            if (c[1] & 1) != want:
                break
            cnt += 1
        return mk_int(cnt, 32)
    if which in ("leading_ones", "leading_zeros"):
        want = 1 if which == "leading_ones" else 0
        cnt = 0
        for b in reversed(bits):
            c = m.concretize(st, b)
            if (c[1] & 1) != want:
                break
            cnt += 1
        return mk_int(cnt, 32)
    if which == "count_ones":
        cnt = 0
        for b in bits:
            cnt += m.concretize(st, b)[1] & 1
        return mk_int(cnt, 32)
    raise Unanalysable(which)


def simd_transmute(m, st, v, s, d):
    if v[0] == "simd":
        return v
    raise Unanalysable("transmute involving SIMD type %s -> %s" % (s["s"], d["s"]))


X86 = ["_mm_set1_epi8", "_mm_lddqu_si128", "_mm_loadu_si128", "_mm_load_si128", "_mm_max_epu8", "_mm_min_epu8", "_mm_cmpeq_epi8",
       "_mm_cmpgt_epi8", "_mm_cmplt_epi8", "_mm_and_si128", "_mm_or_si128", "_mm_xor_si128", "_mm_andnot_si128", "_mm_movemask_epi8",
       "_mm_setzero_si128", "_mm_add_epi8", "_mm_sub_epi8", "_mm_adds_epu8", "_mm_subs_epu8",
       "_mm256_set1_epi8", "_mm256_lddqu_si256", "_mm256_loadu_si256", "_mm256_load_si256", "_mm256_max_epu8", "_mm256_min_epu8",
       "_mm256_cmpeq_epi8", "_mm256_cmpgt_epi8", "_mm256_and_si256", "_mm256_or_si256", "_mm256_xor_si256", "_mm256_andnot_si256",
       "_mm256_movemask_epi8", "_mm256_setzero_si256", "_mm256_add_epi8", "_mm256_sub_epi8", "_mm256_adds_epu8", "_mm256_subs_epu8"]


def install(m):
    for name in X86:
        f = x86_prim(name)
        m.prims["core::arch::x86_64::" + name] = f
        m.prims["core::arch::x86::" + name] = f
        m.prims["core::core_arch::x86::" + name] = f
    from . import neon
    neon.install(m)
