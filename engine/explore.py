"""Exploration of the abstract state graph: hooks that give Bytes-field stores their tape
semantics, canonicalisation (position re-tokenisation, cell renumbering, gap saturation),
loop-head subsumption, counter generalisation, and the worklist driver."""
import os
import sys
import time
from . import mir as M
from .absm import (
    Machine, State, Frame, Fork, Unanalysable, Violation, mk_int, mk_bool, TRUE, FALSE, UNIT, UNINIT, FULL, TABLES,
    sym_add, sym_norm, sym_of, mask_vals, mask_str, K_SAT, term_key,
)
from . import prims as P

KEEP_RECENT = 2


def is_pos_sym(st, s):
    return st.is_pos(s)


# =============================================================================================
# generic value traversal
# =============================================================================================
def map_value(v, f):
    """Rebuild a value bottom-up; f(node) -> replacement node or None to keep (after children)."""
    k = v[0]
    if k == "agg":
        nv = ("agg", tuple(map_value(x, f) for x in v[1]))
    elif k == "enum":
        nv = ("enum", v[1], tuple(map_value(x, f) for x in v[2]))
    elif k == "union":
        nv = ("union", v[1], map_value(v[2], f))
    elif k == "simd":
        nv = ("simd", tuple(map_value(x, f) for x in v[1]))
    elif k == "bitv":
        nv = ("bitv", tuple(map_value(x, f) for x in v[1]), v[2], v[3])
    elif k == "ptr":
        nv = ("ptr", map_loc(v[1], f))
    elif k == "fat":
        nv = ("fat", map_loc(v[1], f), map_value(v[2], f), map_summ(v[3], f))
    elif k == "prim":
        nv = ("prim", v[1]) + tuple(map_value(x, f) if isinstance(x, tuple) and x and isinstance(x[0], str) and x[0] in VALUE_KINDS else x for x in v[2:])
    elif k == "word":
        nv = ("word", map_wexpr(v[1], f), v[2], v[3])
    elif k == "wlane":
        nv = ("wlane", map_wexpr(v[1], f), v[2])
    elif k == "wtest":
        nv = ("wtest", map_wexpr(v[1], f)) + v[2:]
    else:
        nv = v
    r = f(nv)
    return nv if r is None else r


VALUE_KINDS = {"int", "cell", "sym", "ptr", "fat", "agg", "enum", "union", "simd", "bitv", "word", "wlane", "wtest", "prim", "fn", "zst",
               "uninit", "hist", "top", "env"}


def map_wexpr(e, f):
    k = e[0]
    if k == "leaf":
        return ("leaf", tuple(map_value(x, f) for x in e[1]))
    if k == "const":
        return e
    if k == "not":
        return ("not", map_wexpr(e[1], f))
    return (k, map_wexpr(e[1], f), map_wexpr(e[2], f))


def map_summ(s, f):
    if s is None:
        return None
    if s[0] == "trim":
        return ("trim", s[1], map_summ(s[2], f))
    return s


def map_loc(loc, f):
    k = loc[0]
    if k == "B":
        r = f(("sym", loc[1], loc[2], 0, False)) if loc[1] else None
        if r is not None:
            if r[0] == "sym":
                return ("B", r[1], r[2])
            raise Unanalysable("buffer pointer collapsed to constant")
        return loc
    if k == "D":
        return ("D", loc[1], map_value(loc[2], f), map_path(loc[3], f))
    if k == "L":
        return ("L", loc[1], loc[2], map_path(loc[3], f))
    if k in ("H", "S"):
        return (k, loc[1], map_path(loc[2], f))
    if k == "U":
        return ("U", map_loc(loc[1], f), map_value(loc[2], f), map_summ(loc[3], f))
    return loc


def map_path(path, f):
    if not any(isinstance(e, tuple) for e in path):
        return path
    return tuple(("ix", map_value(e[1], f)) if isinstance(e, tuple) else e for e in path)


def walk_state_values(st):
    """Yield (setter, value) for every root value held by the state."""
    for fr in st.frames:
        for l in sorted(fr.locals):
            yield ("L", fr, l), fr.locals[l]
    for name in sorted(st.heap):
        yield ("H", name), st.heap[name]


def map_state(st, f):
    for fr in st.frames:
        for l in list(fr.locals):
            fr.locals[l] = map_value(fr.locals[l], f)
        if fr.dest is not None:
            fr.dest = map_loc(fr.dest, f)
    for name in list(st.heap):
        st.heap[name] = map_value(st.heap[name], f)
    st.rsyms = {k: (map_loc(v[0], f), v[1], map_value(v[2], f)) for k, v in st.rsyms.items()}
    st.wfacts = [(map_wexpr(e, f), lane, c, t) for (e, lane, c, t) in st.wfacts]
    if st.mon is not None:
        st.mon.map_values(lambda v: map_value(v, f), lambda loc: map_loc(loc, f))


# =============================================================================================
# hooks: tape semantics of the cursor, window of uncommitted bytes, events for monitors
# =============================================================================================
class TapeHooks:
    def __init__(self, monitors=None):
        self.events = None

    # --- Bytes -------------------------------------------------------------------------------
    def on_bytes_new(self, m, st, ops):
        n = st.flags.get("bytes_new", 0)
        if n:
            raise Unanalysable("second cursor (iter::Bytes) constructed in one parse call")
        st.flags["bytes_new"] = 1
        names = m.bytes_field_index("start"), m.bytes_field_index("end"), m.bytes_field_index("cursor")
        if None in names:
            raise Unanalysable("anchor missing: iter::Bytes fields start/end/cursor")
        s, e, c = ops[names[0]], ops[names[1]], ops[names[2]]
        for v in (s, e, c):
            if v[0] != "ptr" or v[1][0] != "B":
                raise Unanalysable("Bytes constructed over something that is not the input buffer")
        # cursor and start must be the current position; end must be the buffer end
        if m.buf_rel(st, s[1]) != 0 or m.buf_rel(st, c[1]) != 0:
            m.violate(st, "bytes-new-invariant", "Bytes::new: start/cursor are not the buffer start")
        if not (e[1][1] == (("E", 1),) and e[1][2] == 0):
            m.violate(st, "bytes-new-invariant", "Bytes::new: end pointer is not buffer start + len")
        st.flags["w_start"] = s[1]

    def on_bytes_field_store(self, m, st, fname, loc, v):
        if fname == "cursor":
            if v[0] != "ptr" or v[1][0] != "B":
                raise Unanalysable("cursor assigned a non-buffer pointer")
            r = m.buf_rel(st, v[1])
            if r is None:
                if st.run is not None and m.ahead_rel(st, v[1]) is not None:
                    # the target lies behind a measured run of unknown length: consume the look-ahead
                    # one byte per step (the explorer treats the step as a loop head), unfolding the
                    # run when the cells in front of it are used up
                    tok, idx, back = st.ahead
                    if not (idx >= 1 and idx + back + m.ahead_rel(st, v[1]) >= 1):
                        m.unfold_run(st)
                    self.consume(m, st, 1)
                    st.flags["summary_head"] = True
                    raise Fork([("bulk-advance-step", lambda s_: None)], "bulk advance over a measured run")
                raise Unanalysable("cursor moved to an inexact position")
            if r < 0:
                st.flags["backward"] = st.flags.get("backward", 0) + 1
                m.violate(st, "cursor-moved-backward", "cursor assigned a position %d byte(s) behind itself" % (-r))
            if r == 0:
                return
            ok = m.need_tape(st, r)
            m.oblige(st, "advance-in-bounds", ok, "cursor advanced by %d with only %d byte(s) proven to remain" % (r, len(st.tape)))
            self.consume(m, st, r)
            return
        if fname == "start":
            if v[0] != "ptr" or v[1][0] != "B":
                raise Unanalysable("start assigned a non-buffer pointer")
            r = m.buf_rel(st, v[1])
            if r is None:
                raise Unanalysable("start moved to an inexact position")
            if r > 0:
                m.violate(st, "start-beyond-cursor", "Bytes.start assigned a position ahead of the cursor")
            keep = -r
            if keep <= len(st.w_recent):
                st.w_recent = st.w_recent[len(st.w_recent) - keep:] if keep else []
                st.w_old = 0
                st.w_old_len = (0, True)
                st.w_first = st.w_recent[0] if st.w_recent else None
            st.flags["w_start"] = v[1]
            st.flags.pop("wscanned", None)
            if st.mon is not None:
                st.mon.commit(m, st, keep)
            return
        if fname == "end":
            m.violate(st, "end-reassigned", "Bytes.end reassigned")

    def consume(self, m, st, r):
        """The cursor passes the first r look-ahead cells."""
        cells = st.tape[:r]
        # monitors first (pure; may Fork), then commit
        if st.mon is not None:
            newmon = st.mon.clone()
            for i, c in enumerate(cells):
                newmon.consume(m, st, c, i)
            st.mon = newmon
        for c in cells:
            if st.w_first is None and st.w_old_len == (0, True) and not st.w_recent:
                st.w_first = c
            st.w_recent.append(c)
        del st.tape[:r]
        if st.ahead is not None:
            tok, idx, back = st.ahead
            if r >= idx and st.run is None:
                # the cursor reaches (or passes) the measured position: it becomes an ordinary
                # position token behind the cursor
                st.advance(idx)
                if st.cur_gap == (0, True):
                    # coincides with the last chain token: keep both names by a zero gap
                    st.chain.append(tok)
                    st.gaps.append((0, True))
                else:
                    st.chain.append(tok)
                    st.gaps.append(st.cur_gap)
                    st.cur_gap = (0, True)
                st.ahead = None
                st.advance(r - idx)
            else:
                st.ahead = (tok, idx - r, back)
                st.advance(r)
        else:
            st.advance(r)
        st.flags["consumed"] = True
        st.flags.pop("$since", None)

    def window_len(self, st):
        lo, ex = st.w_old_len
        return lo + len(st.w_recent), ex

    def region_summary(self, m, st, loc, meta):
        """Summary of buffer region [loc, loc+meta) when it lies behind the cursor inside the
        uncommitted window; None otherwise (e.g. the remaining input)."""
        pb = m.p.ptr_bytes * 8
        start = m.addr_of(loc, pb)
        end = sym_add(start, meta)
        if end[0] != "sym":
            return None
        re_ = st.rel_pos(end[1], end[2])
        if re_ is None or re_[2] != 1 or re_[0] is None or re_[0] != re_[1]:
            return None
        e = re_[0]
        if e > 0:
            return None
        k = -e  # region ends k bytes behind the cursor
        rs = st.rel_pos(start[1], start[2])
        wlen, wex = self.window_len(st)
        recent = st.w_recent
        if rs is not None and rs[0] is not None and rs[0] == rs[1]:
            s = -rs[0]  # region starts s bytes behind the cursor
            if s < k:
                return None
            if s == k:
                return ("empty",)
            if s <= len(recent):
                cells = recent[len(recent) - s: len(recent) - k]
                content = 0
                for c in cells:
                    content |= st.cells[c]
                return ("reg", content, st.cells[cells[0]], True)
        # inexact (or older) start: accept only the window start
        ws = st.flags.get("w_start")
        if ws is None or ws != loc:
            if not (wex and rs is not None and rs[0] is not None and rs[0] == rs[1] and -rs[0] == wlen):
                return ("reg", FULL, FULL, None)
        if k > len(recent):
            # the skipped tail has been folded into the summary: content over-approximates
            cells = []
        else:
            cells = recent[: len(recent) - k]
        content = st.w_old
        for c in cells:
            content |= st.cells[c]
        if st.w_first is None:
            first = FULL
        elif isinstance(st.w_first, tuple):
            first = st.w_first[1]
        elif isinstance(st.w_first, int) and st.w_first in st.cells and (st.w_first in recent[: len(recent) - k] or st.w_old_len != (0, True)):
            first = st.cells[st.w_first]
        else:
            first = FULL
        lo, ex = st.w_old_len
        total_lo = lo + len(cells)
        nonempty = True if total_lo > 0 else (False if ex else None)
        if nonempty is False:
            return ("empty",)
        return ("reg", content, first, nonempty)

    # --- events forwarded to the monitor ------------------------------------------------------------
    def on_materialise(self, m, st, c):
        pass

    def on_eof(self, m, st):
        st.flags["eof_seen"] = True

    def on_heap_store(self, m, st, name, path, v):
        if st.mon is not None:
            st.mon.heap_store(m, st, name, path, v)

    def on_slot_store(self, m, st, loc, v):
        # the crate function that fills the header array (owner of the header counter)
        for fr in reversed(st.frames):
            if m.p.insts[fr.inst]["local"]:
                st.flags["slot_fn"] = fr.inst
                break
        if st.mon is not None:
            st.mon.slot_store(m, st, loc, v)

    def on_yield_slot(self, m, st, item):
        if st.mon is not None:
            st.mon.yield_slot(m, st, item)

    def on_slots_exhausted(self, m, st, it):
        if st.mon is not None:
            st.mon.slots_exhausted(m, st, it)

    def on_str(self, m, st, s, ok):
        if st.mon is not None:
            st.mon.on_str(m, st, s, ok)

    def on_static_store(self, m, st, path, v):
        pass

    def on_lookahead_scan(self, m, st, s, what):
        """A pass over the *remaining* input whose length is not bounded by a constant (nothing is
        consumed by it).  The parser proper only ever looks a bounded number of bytes ahead; one
        such pass per call keeps the work linear, a second one does not."""
        if s[0] != "fat" or s[1][0] != "B":
            return
        r = st.rel_pos(s[1][1], s[1][2])
        if r is None or r[2] != 1 or r[0] is None or r[0] < 0:
            return
        ln = s[2]
        if ln[0] == "int" and ln[1] <= 64:
            return
        n = st.flags.get("ahead_scans", 0)
        if n >= 1:
            m.violate(st, "lookahead-rescanned", "%s is a second unbounded pass over the remaining input (work grows with the square of the buffer length)" % what, fatal=False)
        st.flags["ahead_scans"] = min(n + 1, 2)

    def on_region_scan(self, m, st, s, what):
        """A linear pass over a slice of the input (trim scan, UTF-8 validation, iteration).
        The uncommitted window may be scanned once between two commits; committed regions are
        disjoint, so a bounded number of passes over each keeps the total work linear."""
        if s[0] != "fat" or s[1][0] != "B":
            return
        pb = m.p.ptr_bytes * 8
        from .absm import sym_add as _sa
        end = _sa(m.addr_of(s[1], pb), s[2])
        if end[0] != "sym":
            return
        re_ = st.rel_pos(end[1], end[2])
        if re_ is None or re_[2] != 1 or re_[1] is None or re_[1] > 0:
            return  # not (known to be) behind the cursor: look-ahead over remaining input
        if s[2][0] == "int" and s[2][1] <= 1:
            return
        ws = st.flags.get("w_start")
        uncommitted = True
        if ws is not None and end[0] == "sym":
            d = sym_norm(list(end[1]) + [(x, -c) for x, c in ws[1]], end[2] - ws[2], 0, True)
            if d[0] == "int":
                uncommitted = d[1] > 0
            else:
                r = st.rel_pos(d[1], d[2])
                uncommitted = not (r is not None and r[1] is not None and r[1] <= 0)
        if uncommitted:
            n = st.flags.get("wscanned", 0)
            if n >= 1:
                m.violate(st, "window-rescanned", "%s passes over input that is not yet committed and was already scanned since the last commit (work grows with the square of the pending length)" % what)
            st.flags["wscanned"] = n + 1

    def on_enter(self, m, st, inst):
        if st.mon is not None:
            st.mon.enter(m, st, inst)

    def on_leave(self, m, st, inst, rv):
        if st.mon is not None:
            st.mon.leave(m, st, inst, rv)

    def on_target_feature_call(self, m, st, inst, tf):
        from . import lanes
        lanes.check_features(m, st, inst)

    def describe(self, st):
        if st.mon is not None:
            return st.mon.describe(st)
        return None


# =============================================================================================
# canonicalisation
# =============================================================================================
def collect_syms(st, with_wfacts=True):
    """All symbols mentioned by values, locations, facts."""
    pos_addrs = []  # (terms, const) of exact-able address expressions (coefsum == 1)
    syms = set()
    cells = []
    diffs = st.flags.setdefault("$diffs", [])
    del diffs[:]

    def f(v):
        k = v[0]
        if k == "sym":
            for s, c in v[1]:
                if isinstance(s, tuple) and s[0] == "c":
                    cells.append(s[1])
                else:
                    syms.add(s)
            if sum(c for s, c in v[1] if is_pos_sym(st, s)) == 1 and all(is_pos_sym(st, s) for s, c in v[1]):
                pos_addrs.append((v[1], v[2]))
            elif v[2] != 0 and len(v[1]) == 2 and all(is_pos_sym(st, s) for s, c in v[1]) and sorted(c for s, c in v[1]) == [-1, 1]:
                diffs.append((v[1], v[2]))
        elif k == "cell":
            cells.append(v[1])
        return None

    for _, v in walk_state_values(st):
        map_value(v, f)
    for fr in st.frames:
        if fr.dest is not None:
            map_loc(fr.dest, f)
    for k_, v_ in st.rsyms.items():
        map_loc(v_[0], f)
        map_value(v_[2], f)
    if with_wfacts:
        for (e, lane, c, t) in st.wfacts:
            map_wexpr(e, f)
    if st.mon is not None:
        st.mon.map_values(lambda v: (map_value(v, f), v)[1], lambda loc: (map_loc(loc, f), loc)[1])
        for s in st.mon.symbols():
            syms.add(s)
    ws = st.flags.get("w_start")
    if ws is not None:
        map_loc(ws, f)
    return syms, pos_addrs, cells


def insert_token_at(st, back):
    return st.token_at(back)


def round_bounds(lo, hi):
    if lo is None or hi is None:
        return lo, hi
    rlo = 0 if lo >= 0 else -(1 << (-lo - 1).bit_length()) if lo < -1 else -1
    rhi = (1 << hi.bit_length()) - 1 if hi > 0 else 0
    return min(rlo, lo), max(rhi, hi)


def abstract_dead_cells(m, st):
    live = set(st.tape)

    def direct(v):
        if v[0] == "cell" and v[3] <= 8:
            live.add(v[1])
        return None

    for _, v in walk_state_values(st):
        map_value(v, direct)
    if st.mon is not None:
        for c in st.mon.live_cells():
            live.add(c)
    for (e, lane, cst, t) in st.wfacts:
        map_wexpr(e, direct)
    groups = {}
    order = []

    def is_v(s_):
        return isinstance(s_, str) and s_.startswith("V")

    def group_of(v):
        if v[0] == "cell":
            v = ("sym", ((("c", v[1], v[2]), 1),), 0, v[3], v[4])
        g = tuple((s_, c) for s_, c in v[1] if (isinstance(s_, tuple) and s_[0] == "c") or is_v(s_))
        if not g:
            return None
        if not any(isinstance(s_, tuple) and s_[1] not in live for s_, c in g):
            return None
        if any(isinstance(s_, tuple) and s_[1] in live for s_, c in g):
            return None
        return g

    def find(v):
        if v[0] == "sym" or (v[0] == "cell" and v[3] > 8):
            g = group_of(v)
            if g is not None and g not in groups:
                groups[g] = None
                order.append(g)
        return None

    for _, v in walk_state_values(st):
        map_value(v, find)
    if st.mon is not None:
        st.mon.map_values(lambda v: (map_value(v, find), v)[1], lambda loc: loc)
    if not order:
        return
    # name new symbols; bounds from the current state
    used = set()
    for k in st.facts:
        for s_ in k:
            if isinstance(s_, str) and s_.startswith("V"):
                used.add(s_)
    n = 0
    newfacts = {}
    for g in order:
        if len(g) == 1 and is_v(g[0][0]) and g[0][1] == 1:
            groups[g] = g[0][0]
            continue
        n += 1
        while "V%d" % n in used:
            n += 1
        name = "V%d" % n
        used.add(name)
        groups[g] = name
        lo, hi = m.sym_bounds(st, ("sym", g, 0, 0, True))
        lo, hi = round_bounds(lo, hi)
        if lo is not None:
            newfacts[(name, None)] = lo
        if hi is not None:
            newfacts[(None, name)] = -hi

    def sub(v):
        if v[0] == "cell" and v[3] > 8:
            g = group_of(v)
            if g is not None:
                return ("sym", ((groups[g], 1),), 0, v[3], v[4])
        if v[0] == "sym":
            g = group_of(v)
            if g is not None:
                name = groups[g]
                rest = [(s_, c) for s_, c in v[1] if (s_, c) not in g]
                return sym_norm(rest + [(name, 1)], v[2], v[3], v[4]) if v[3] else ("sym", tuple(sorted(rest + [(name, 1)], key=term_key)), v[2], v[3], v[4])
        return None

    map_state(st, sub)
    st.facts.update(newfacts)


def rename_value_syms(m, st):
    """Canonical names V1, V2, ... in order of first occurrence."""
    order = []

    def find(v):
        if v[0] == "sym":
            for s_, c in v[1]:
                if isinstance(s_, str) and s_.startswith("V") and s_ not in order:
                    order.append(s_)
        return None

    for _, v in walk_state_values(st):
        map_value(v, find)
    if st.mon is not None:
        st.mon.map_values(lambda v: (map_value(v, find), v)[1], lambda loc: loc)
    ren = {old: "V%d" % (i + 1) for i, old in enumerate(order)}
    if all(k == v for k, v in ren.items()):
        st.facts = {k: v for k, v in st.facts.items() if all(not (isinstance(x, str) and x.startswith("V")) or x in ren for x in k)}
        return
    tmp = {old: "~" + new for old, new in ren.items()}

    def r1(v):
        if v[0] == "sym" and any(s_ in tmp for s_, c in v[1]):
            return ("sym", tuple(sorted(((tmp.get(s_, s_) if isinstance(s_, str) else s_, c) for s_, c in v[1]), key=term_key)), v[2], v[3], v[4])
        return None

    def r2(v):
        if v[0] == "sym" and any(isinstance(s_, str) and s_.startswith("~") for s_, c in v[1]):
            return ("sym", tuple(sorted(((s_[1:] if isinstance(s_, str) and s_.startswith("~") else s_, c) for s_, c in v[1]), key=term_key)), v[2], v[3], v[4])
        return None

    map_state(st, r1)
    map_state(st, r2)
    nf = {}
    for k, v in st.facts.items():
        if any(isinstance(x, str) and x.startswith("V") and x not in ren for x in k):
            continue
        nf[tuple(ren.get(x, x) if isinstance(x, str) else x for x in k)] = v
    st.facts = nf


def symbolise_counter(m, st):
    """Header-count generalisation: at a loop head of the function that owns the header-array
    iterator, the concrete number of slots handed out (>= 1) is replaced by the symbol N in that
    frame, the heap, the monitor and the facts; afterwards N is re-based so that the iterator
    position is exactly N."""
    fr = st.frames[-1]
    found = []

    def look(v):
        if v[0] == "prim" and v[1] == "itermut":
            found.append(v)
        return None

    for l, v in fr.locals.items():
        map_value(v, look)
    if len(found) == 1:
        pos = found[0][3]
    elif not found and st.flags.get("slot_fn") == fr.inst and getattr(st.mon, "nstored", None) is not None:
        # index-style filling (`headers.get_mut(n)` instead of an iterator): the anchor is the
        # number of headers stored so far, provided no iterator over the array exists anywhere
        for f2 in st.frames:
            for l, v in f2.locals.items():
                map_value(v, look)
        if found:
            return
        pos = st.mon.nstored
        if pos[0] == "int":
            pos = mk_int(pos[1], m.p.ptr_bytes * 8)
    else:
        return
    pb = m.p.ptr_bytes * 8
    if pos[0] == "int":
        p_ = pos[1]
        if p_ < 1:
            return

        def sub(v):
            if v[0] == "int" and v[2] == pb and not v[3] and v[1] >= p_ and v[1] <= p_ + 1:
                return ("sym", (("N", 1),), v[1] - p_, pb, False)
            return None

        for l in list(fr.locals):
            fr.locals[l] = map_value(fr.locals[l], sub)
        for name in list(st.heap):
            st.heap[name] = map_value(st.heap[name], sub)
        if st.mon is not None:
            st.mon.map_values(lambda v: map_value(v, sub), lambda loc: map_loc(loc, sub))
        nf = {}
        for (a, b), lo in st.facts.items():
            if isinstance(a, str) and a.startswith("CAP") and b is None:
                nf[(a, "N")] = lo - p_
            elif isinstance(b, str) and b.startswith("CAP") and a is None:
                nf[("N", b)] = lo + p_
            else:
                nf[(a, b)] = lo
        nf[("N", None)] = p_
        st.facts = nf
        return
    if pos[0] == "sym" and pos[1] == (("N", 1),) and pos[2] != 0:
        d = pos[2]

        def sh(v):
            if v[0] == "sym" and any(s_ == "N" for s_, c in v[1]):
                c = dict(v[1])["N"]
                return sym_norm(v[1], v[2] - c * d, v[3], v[4]) if v[3] else ("sym", v[1], v[2] - c * d, v[3], v[4])
            return None

        map_state(st, sh)
        nf = {}
        for (a, b), lo in st.facts.items():
            if a == "N" and b != "N":
                nf[(a, b)] = lo + d
            elif b == "N" and a != "N":
                nf[(a, b)] = lo - d
            else:
                nf[(a, b)] = lo
        st.facts = nf


def canonicalise(m, st, heads=None):
    """Re-tokenise exact positions, drop unreferenced tokens, saturate gaps, fold the window,
    garbage-collect and renumber cells."""
    # 0a. output fields already stored in the caller's Request/Response are write-only for the
    #     parser: keep only the fact that they were assigned (monitors saw the stored value)
    if "SELF" in st.heap and st.heap["SELF"][0] == "agg":
        names = st.flags.get("self_fields", ())
        nf = []
        for i, v in enumerate(st.heap["SELF"][1]):
            if v[0] in ("hist", "top") or (v[0] == "fat" and v[1][0] in ("D", "Z")):
                nf.append(v)
            else:
                nf.append(("top", "stored:%s" % (names[i] if i < len(names) else i)))
        st.heap["SELF"] = ("agg", tuple(nf))
    # 0b. lengths of buffer slices as differences of position tokens
    pbits = m.p.ptr_bytes * 8

    def fatlen(v):
        if v[0] == "fat" and v[1][0] == "B" and v[2][0] == "int" and v[2][1] > 0:
            r = st.rel_pos(v[1][1], v[1][2])
            if r is not None and r[2] == 1 and r[0] is not None and r[0] == r[1] and r[0] + v[2][1] <= 0:
                a = insert_token_at(st, -r[0])
                b = insert_token_at(st, -(r[0] + v[2][1]))
                if a is not None and b is not None and a != b:
                    return ("fat", ("B", ((a, 1),), 0), ("sym", tuple(sorted(((a, -1), (b, 1)), key=term_key)), 0, pbits, False), v[3])
        return None

    map_state(st, fatlen)
    # 0. abstract linear parts over consumed cells that no single-byte value refers to any more
    abstract_dead_cells(m, st)
    # the header counter is generalised at the head of the main (largest) loop of its function only: the
    # generalisation substitutes by value, which must not meet the small constants of inner loops
    fr_ = st.frames[-1]
    if heads is None or (fr_.stmt == 0 and heads.get(fr_.inst) == fr_.block):
        symbolise_counter(m, st)
    # 1. fold the consumed-but-uncommitted window: cells no longer referenced by any live value
    #    are summarised (content mask, length bound, first-byte mask)
    _, _, live_cells = collect_syms(st, with_wfacts=False)
    live_set = set(live_cells) | set(st.tape)
    if st.mon is not None:
        live_set |= set(st.mon.cells())
    # SWAR facts only matter while a word value over their block is still alive (the per-byte
    # projections have already been applied to the cells)
    from .lanes import leaf_of
    wcells = set()

    def wordcells(v):
        if v[0] in ("word", "wlane", "wtest"):
            lf = leaf_of(v[1])
            if lf is not None:
                for x in lf[1]:
                    if x[0] == "cell":
                        wcells.add(x[1])
        return None

    for _, v in walk_state_values(st):
        map_value(v, wordcells)
    st.wfacts = [wf for wf in st.wfacts if any(x[0] == "cell" and x[1] in wcells for x in leaf_of(wf[0])[1])]
    for wf in st.wfacts:
        for x in leaf_of(wf[0])[1]:
            if x[0] == "cell":
                live_set.add(x[1])
    nfold = 0
    for c in st.w_recent:
        if c in live_set:
            break
        nfold += 1
    if nfold:
        old = st.w_recent[:nfold]
        for c in old:
            st.w_old |= st.cells[c]
        lo, ex = st.w_old_len
        lo += len(old)
        st.w_old_len = (min(lo, K_SAT), ex and lo <= K_SAT)
        if isinstance(st.w_first, int) and st.w_first in old:
            st.w_first = ("m", st.cells[st.w_first])
        st.w_recent = st.w_recent[nfold:]
    # 2. re-tokenise exact addresses
    syms, pos_addrs, _ = collect_syms(st)
    rewrite = {}
    for terms, const in set(pos_addrs):
        r = st.rel_pos(terms, const)
        if r is None or r[2] != 1 or r[0] is None or r[0] != r[1]:
            continue
        rel = r[0]
        if rel > 0:
            t = st.cur_tok()
            rewrite[(terms, const)] = (((t, 1),), rel)
        else:
            t = insert_token_at(st, -rel)
            if t is not None:
                rewrite[(terms, const)] = (((t, 1),), 0)
    for terms, const in set(map(tuple, st.flags.get("$diffs", []))):
        pos = [s_ for s_, c in terms if c == 1][0]
        neg = [s_ for s_, c in terms if c == -1][0]
        if pos == "E":
            continue
        r = st.rel_pos(((pos, 1),), const)
        if r is None or r[0] is None or r[0] != r[1] or r[0] > 0:
            continue
        t = insert_token_at(st, -r[0])
        if t is not None and t != neg:
            rewrite[(terms, const)] = (tuple(sorted(((t, 1), (neg, -1)), key=term_key)), 0)
    if rewrite:
        def f(v):
            if v[0] == "sym":
                key = (v[1], v[2])
                if key in rewrite:
                    nt, nc = rewrite[key]
                    return ("sym", nt, nc, v[3], v[4])
            return None
        map_state(st, f)
        ws = st.flags.get("w_start")
        if ws is not None:
            st.flags["w_start"] = map_loc(ws, f)
    # 3. drop unreferenced tokens (never 'B': the buffer base is needed by the monitors)
    syms, _, cells = collect_syms(st)
    ws = st.flags.get("w_start")
    keep = set(s for s in syms if isinstance(s, str))
    keep.add("B")
    if st.ahead is not None and st.run is None and st.ahead[0] not in keep:
        st.ahead = None
    i = 1
    while i < len(st.chain):
        t = st.chain[i]
        if t in keep:
            i += 1
            continue
        # merge gaps[i-1] (prev->t) with gaps[i] (t->next) or cur_gap
        g1 = st.gaps[i - 1]
        if i < len(st.chain) - 1:
            g2 = st.gaps[i]
            st.gaps[i - 1] = (g1[0] + g2[0], g1[1] and g2[1])
            del st.gaps[i]
        else:
            st.cur_gap = (g1[0] + st.cur_gap[0], g1[1] and st.cur_gap[1])
            del st.gaps[i - 1]
        del st.chain[i]
    # 4. saturate: exact distances only matter between the committed start and the cursor;
    #    older positions only need their order (and that they are distinct)
    wsi = 0
    ws = st.flags.get("w_start")
    if ws is not None and ws[0] == "B" and len(ws[1]) == 1 and ws[1][0][1] == 1 and ws[2] == 0 and ws[1][0][0] in st.chain:
        wsi = st.chain.index(ws[1][0][0])
    st.gaps = [((min(g[0], 1), False) if i < wsi else ((g[0], g[1]) if g[0] <= K_SAT else (K_SAT, False))) for i, g in enumerate(st.gaps)]
    if st.cur_gap[0] > K_SAT:
        st.cur_gap = (K_SAT, False)
    # 5. rename tokens by chain position
    ren = {}
    for i, t in enumerate(st.chain):
        if t != "B":
            ren[t] = "T%d" % i
    if st.ahead is not None:
        ren[st.ahead[0]] = "A"
    if any(k != v for k, v in ren.items()):
        def g(v):
            if v[0] == "sym" and any(s in ren for s, c in v[1]):
                return sym_norm([(ren.get(s, s), c) for s, c in v[1]], v[2], v[3], v[4]) if v[3] else ("sym", tuple(sorted((ren.get(s, s), c) for s, c in v[1])), v[2], v[3], v[4])
            return None
        # two-phase rename to avoid clashes
        tmp = {t: "~" + n for t, n in ren.items()}
        def g1(v):
            if v[0] == "sym" and any(s in tmp for s, c in v[1]):
                return ("sym", tuple(sorted((tmp.get(s, s), c) for s, c in v[1])), v[2], v[3], v[4])
            return None
        back = {"~" + n: n for n in ren.values()}
        def g2(v):
            if v[0] == "sym" and any(s in back for s, c in v[1]):
                return ("sym", tuple(sorted((back.get(s, s), c) for s, c in v[1])), v[2], v[3], v[4])
            return None
        map_state(st, g1)
        map_state(st, g2)
        if ws is not None:
            st.flags["w_start"] = map_loc(map_loc(st.flags["w_start"], g1), g2)
        st.chain = [ren.get(t, t) for t in st.chain]
        if st.ahead is not None:
            st.ahead = (ren.get(st.ahead[0], st.ahead[0]),) + tuple(st.ahead[1:])
    st.ntok = len(st.chain) + 1
    # 6. cells: GC + renumber in deterministic order
    order = []
    seen = set()

    def note(c):
        if c not in seen:
            seen.add(c)
            order.append(c)

    for c in st.tape:
        note(c)
    for c in st.w_recent:
        note(c)
    if isinstance(st.w_first, int):
        note(st.w_first)
    _, _, cells = collect_syms(st)
    for c in cells:
        note(c)
    if st.mon is not None:
        for c in st.mon.cells():
            note(c)
    wf = []
    for (e, lane, cst, t) in st.wfacts:
        from .lanes import leaf_of
        lf = leaf_of(e)
        alive = lf is not None and any(x[0] == "cell" and x[1] in seen for x in lf[1])
        if alive:
            wf.append((e, lane, cst, t))
            for x in lf[1]:
                if x[0] == "cell":
                    note(x[1])
    st.wfacts = wf
    cren = {c: i for i, c in enumerate(order)}
    if any(k != v for k, v in cren.items()) or len(cren) != len(st.cells):
        def h(v):
            if v[0] == "cell":
                return ("cell", cren[v[1]], v[2], v[3], v[4])
            if v[0] == "sym" and any(isinstance(s_, tuple) and s_[0] == "c" for s_, c in v[1]):
                return sym_norm([((("c", cren[s_[1]], s_[2]) if isinstance(s_, tuple) and s_[0] == "c" else s_), c) for s_, c in v[1]], v[2], v[3], v[4]) if v[3] else \
                    ("sym", tuple(sorted((((("c", cren[s_[1]], s_[2]) if isinstance(s_, tuple) and s_[0] == "c" else s_), c) for s_, c in v[1]), key=term_key)), v[2], v[3], v[4])
            return None
        map_state(st, h)
        st.cells = {cren[c]: st.cells[c] for c in order}
        st.tape = [cren[c] for c in st.tape]
        st.w_recent = [cren[c] for c in st.w_recent]
        if isinstance(st.w_first, int):
            st.w_first = cren[st.w_first]
        if st.mon is not None:
            st.mon.rename_cells(cren)
        st.ncell = len(order)
    rename_value_syms(m, st)
    # 7. rposition symbols that are no longer referenced
    syms, _, _ = collect_syms(st)
    st.rsyms = {k: v for k, v in st.rsyms.items() if k in syms}
    # 8. facts about symbols that no longer occur
    st.facts = {k: v for k, v in st.facts.items() if all(s is None or s in syms or (isinstance(s, str) and (s.startswith("CAP") or s == "N")) for s in k)}


def state_key(st):
    """Hashable key of a canonicalised state (facts excluded: they are compared by implication)."""
    frames = tuple((fr.inst, fr.block, fr.stmt, tuple(sorted(fr.locals.items())), fr.dest, fr.ret_block) for fr in st.frames)
    heap = tuple(sorted(st.heap.items()))
    cells = tuple(sorted(st.cells.items()))
    flags = tuple(sorted((k, v) for k, v in st.flags.items() if k not in ("w_start",) and not k.startswith("$")))
    w = (tuple(st.w_recent), st.w_first if isinstance(st.w_first, int) else None, st.flags.get("w_start"))
    return (frames, heap, cells, (tuple(st.tape), st.ahead, st.run) if st.ahead is not None else tuple(st.tape), st.eof, tuple(st.chain), tuple(st.gaps), st.cur_gap, w,
            tuple(sorted(st.env.items())),
            tuple(sorted(st.rsyms.items())), tuple(st.wfacts), st.mon.key() if st.mon is not None else None, flags)


def window_summary(st):
    fm = st.w_first[1] if isinstance(st.w_first, tuple) else (None if st.w_first is None else -1)
    return (st.w_old, st.w_old_len, fm)


def window_covers(a, b):
    """Summary a describes every window that b describes."""
    if (a[0] | b[0]) != a[0]:
        return False
    (alo, aex), (blo, bex) = a[1], b[1]
    if aex:
        if not (bex and blo == alo):
            return False
    elif blo < alo:
        return False
    if a[2] == -1 or b[2] == -1:
        return a[2] == b[2]
    if a[2] is None:
        return b[2] is None
    if b[2] is None:
        return not aex or alo == 0
    return (a[2] | b[2]) == a[2]


def window_join(a, b):
    (alo, aex), (blo, bex) = a[1], b[1]
    ln = (alo, True) if (aex and bex and alo == blo) else (min(alo, blo), False)
    if a[2] == -1 or b[2] == -1:
        fm = a[2]
    elif a[2] is None and b[2] is None:
        fm = None
    else:
        fm = (a[2] or 0) | (b[2] or 0)
    return (a[0] | b[0], ln, fm)


def set_window_summary(st, w):
    st.w_old, st.w_old_len = w[0], w[1]
    if w[2] != -1:
        st.w_first = None if w[2] is None else ("m", w[2])


def facts_weaker(a, b):
    """True when fact set a is implied by fact set b (a is the weaker/more general one)."""
    for k, lo in a.items():
        if k not in b or b[k] < lo:
            return False
    return True


# =============================================================================================
# loop heads
# =============================================================================================
def loop_heads(prog):
    heads = {}
    for inst in prog.insts:
        b = inst["body"]
        if not b:
            continue
        blocks = b["blocks"]
        color = {}
        hs = set()
        stack = [(0, iter(succs(blocks[0])))]
        color[0] = 1
        while stack:
            n, it = stack[-1]
            adv = False
            for s in it:
                if s not in color:
                    color[s] = 1
                    stack.append((s, iter(succs(blocks[s]))))
                    adv = True
                    break
                elif color[s] == 1:
                    hs.add(s)
            if not adv:
                color[n] = 2
                stack.pop()
        heads[inst["id"]] = hs
    return heads


def main_loop_heads(prog, heads):
    """Per function: the head of its largest loop (most blocks that lie on a cycle through the
    head) -- the loop that walks over the input, as opposed to small skipping / trimming loops."""
    out = {}
    for inst in prog.insts:
        hs = heads.get(inst["id"])
        if not hs:
            continue
        blocks = inst["body"]["blocks"]
        n = len(blocks)
        preds = [[] for _ in range(n)]
        for i, bl in enumerate(blocks):
            for s_ in succs(bl):
                preds[s_].append(i)
        best, best_size = None, -1
        for h in sorted(hs):
            # forward reachable from h
            fwd = {h}
            stack = [h]
            while stack:
                x = stack.pop()
                for s_ in succs(blocks[x]):
                    if s_ not in fwd:
                        fwd.add(s_)
                        stack.append(s_)
            # backward reachable from h
            bwd = {h}
            stack = [h]
            while stack:
                x = stack.pop()
                for p_ in preds[x]:
                    if p_ not in bwd:
                        bwd.add(p_)
                        stack.append(p_)
            size = len(fwd & bwd)
            if size > best_size:
                best, best_size = h, size
        out[inst["id"]] = best
    return out


def succs(block):
    t = block["term"]
    k = t["k"]
    out = []
    if k == "goto":
        out.append(t["t"])
    elif k == "switch":
        out.extend(bb for _, bb in t["targets"])
        out.append(t["otherwise"])
    elif k in ("call", "drop", "assert"):
        if t.get("t") is not None:
            out.append(t["t"])
    return out


# =============================================================================================
# the explorer
# =============================================================================================
class Budget(Exception):
    pass


def current_rss_kb():
    """Resident set size of this process now (not the high-water mark: workers are reused)."""
    try:
        with open("/proc/self/statm") as fh:
            return int(fh.read().split()[1]) * (os.sysconf("SC_PAGE_SIZE") // 1024)
    except Exception:
        return 0


class Explorer:
    def __init__(self, prog, hooks=None, max_states=400000, max_seconds=3600):
        self.p = prog
        self.m = Machine(prog, hooks=hooks or TapeHooks())
        P.install(self.m)
        self.heads = loop_heads(prog)
        self.main_heads = main_loop_heads(prog, self.heads)
        self.live = compute_liveness(prog)
        self.visited = {}  # key -> list of fact dicts
        self.max_states = max_states
        self.max_seconds = max_seconds
        self.rss0_kb = current_rss_kb()  # growth is measured from here (a reused worker may start high)
        self.results = []  # finished states
        self.unanalysable = []
        self.nstates = 0
        self.ntrans = 0
        self.nsubsumed = 0
        self.on_result = None
        self.m.shared["cpu_features"] = sorted(
            "cpu:" + i["npath"].split("::")[-1] for i in prog.insts if "__is_feature_detected::" in i["npath"])

    def run(self, init_states):
        t0 = time.time()
        work = list(init_states)
        m = self.m
        while work:
            st = work.pop()
            self.nstates += 1
            if self.nstates > self.max_states or time.time() - t0 > self.max_seconds:
                raise Budget("exploration budget exceeded (%d states)" % self.nstates)
            # run this state until it forks, ends, or reaches an already-covered loop head
            while True:
                try:
                    fr = st.frames[-1]
                    if (fr.stmt == 0 and fr.block in self.heads.get(fr.inst, ())) or st.flags.pop("summary_head", False):
                        if self.covered(st):
                            break
                    m.step_block(st)
                    self.ntrans += 1
                    if self.ntrans % 2000 == 0:
                        if time.time() - t0 > self.max_seconds:
                            raise Budget("exploration budget exceeded (%d states, %d transitions)" % (self.nstates, self.ntrans))
                        if getattr(self, "max_rss_kb", None):
                            if current_rss_kb() - self.rss0_kb > self.max_rss_kb:
                                raise Budget("exploration budget exceeded (memory, %d states)" % self.nstates)
                    if st.done is not None:
                        self.finish(st)
                        break
                except Fork as f:
                    m.stats["forks"] += 1
                    for label, refine in f.choices:
                        s2 = st.clone()
                        try:
                            ok = refine(s2)
                        except Violation:
                            continue
                        if ok is False:
                            continue
                        s2.trace.append(label)
                        if len(s2.trace) > 48:
                            del s2.trace[:-32]
                        work.append(s2)
                    break
                except Violation:
                    break
                except Unanalysable as u:
                    self.unanalysable.append({"what": u.what, "where": m.where(st), "stack": m.stack(st), "path": m.describe_path(st),
                                              "phase": getattr(st.mon, "phase", None),
                                              "options_on": tuple(sorted(k[4:] for k, val in st.env.items() if k.startswith("cfg:") and val))})
                    break
        return self

    def covered(self, st):
        drop_dead_locals(self.live, st, self.p)
        canonicalise(self.m, st, self.main_heads)
        if st.mon is not None:
            st.mon.at_loop_head(self.m, st)
        k = state_key(st)
        w = window_summary(st)
        # C20/C01 termination: returning to an identical abstract state without having consumed a
        # byte or advanced a finite iterator in between is a cycle that makes no progress
        hk = hash((k, w))
        since = st.flags.get("$since")
        if since is None:
            since = st.flags["$since"] = set()
        if hk in since:
            try:
                self.m.violate(st, "no-progress-cycle", "a loop iteration returns to the same state without consuming input or advancing an iterator")
            except Violation:
                pass
            return True
        since.add(hk)
        seen = self.visited.get(k)
        if seen is None:
            self.visited[k] = [[dict(st.facts), w]]
            return False
        for e in seen:
            if facts_weaker(e[0], st.facts) and window_covers(e[1], w):
                self.nsubsumed += 1
                return True
        # join with an entry of comparable facts (widening on the window summary only)
        for e in seen:
            if facts_weaker(e[0], st.facts):
                j = window_join(e[1], w)
                e[1] = j
                set_window_summary(st, j)
                st.facts = dict(e[0])
                self.njoined = getattr(self, "njoined", 0) + 1
                return False
        seen.append([dict(st.facts), w])
        return False

    def finish(self, st):
        if st.mon is not None:
            try:
                st.mon.finish(self.m, st)
            except Violation:
                pass
            except Fork as f:
                # the monitor needs to split a look-ahead cell to decide the verdict
                for label, refine in f.choices:
                    s2 = st.clone()
                    if refine(s2) is False:
                        continue
                    s2.trace.append(label)
                    self.finish(s2)
                return
            except Unanalysable as u:
                self.unanalysable.append({"what": u.what, "where": "at return", "stack": [], "path": self.m.describe_path(st),
                                          "phase": getattr(st.mon, "phase", None),
                                          "options_on": tuple(sorted(k[4:] for k, val in st.env.items() if k.startswith("cfg:") and val))})
                return
        self.results.append(st)
        if self.on_result:
            self.on_result(st)


def closure_of_type(m, clo_tid):
    """The local instance that is the body of a closure type (by its definition path)."""
    if not isinstance(clo_tid, int):
        return None
    ty = m.ty(clo_tid)
    if ty.get("k") != "closure":
        return None
    path = M.norm_path(ty["path"])
    cands = [i for i in m.p.insts if i["local"] and i["body"] and i["npath"] == path]
    if len(cands) > 1:
        # several monomorphic copies (a closure inside a generic function): the one whose
        # environment parameter has exactly this closure type
        def env_ty(i):
            tid = i["body"]["locals"][1]["ty"] if i["body"]["argc"] >= 1 else None
            while tid is not None and m.ty(tid)["k"] in ("ref", "ptr"):
                tid = m.ty(tid)["to"]
            return tid
        cands = [i for i in cands if env_ty(i) == clo_tid]
    return cands[0] if len(cands) == 1 else None


def closure_table(m, st, inst, clo_val, clo_tid, by_type=False):
    """Mask of byte values for which a `FnMut(&u8) -> bool` (or `FnMut(&&u8)`) closure returns true,
    obtained by abstractly interpreting its body over one unconstrained byte cell."""
    key = ("closure_table", inst["id"], clo_tid if by_type else None)
    if key in m.shared:
        return m.shared[key]
    target = None
    if by_type:
        target = closure_of_type(m, clo_tid)
    else:
        # locate the closure body: the FnMut::call_mut / FnOnce resolution is among the callees of
        # the generic library function's instance
        for c, t, _ in m.p.callees(inst):
            if c is None:
                continue
            ci = m.p.insts[c]
            if ci["kind"] in ("item", "closure_once_shim", "fn_ptr_shim") and (ci["local"] or "call" in ci["npath"]):
                if ci["body"] and ci["local"]:
                    target = ci
                    break
    if target is None:
        raise Unanalysable("cannot locate closure body for %s" % inst["name"])
    s = State()
    s.frames = []
    c = s.new_cell(FULL)
    s.heap["$arg"] = ("cell", c, TABLES.ident, 8, False)
    s.heap["$clo"] = clo_val
    sub = Machine(m.p, hooks=None)
    sub.prims = m.prims
    argc = target["body"]["argc"]
    # the byte is passed by as many references as the closure's parameter type has
    depth = 0
    if argc >= 1:
        tid = target["body"]["locals"][argc]["ty"]
        while m.ty(tid)["k"] in ("ref", "ptr"):
            depth += 1
            tid = m.ty(tid)["to"]
    argv = ("ptr", ("H", "$arg", ()))
    if depth == 0:
        argv = s.heap["$arg"]
    for d in range(1, depth):
        s.heap["$arg%d" % d] = argv
        argv = ("ptr", ("H", "$arg%d" % d, ()))
    args = [("ptr", ("H", "$clo", ())), argv][-argc:] if argc <= 2 else None
    if args is None:
        raise Unanalysable("closure arity")
    sub.push_frame(s, target["id"], args, None, None)
    mask_true = 0
    work = [s]
    n = 0
    while work:
        x = work.pop()
        n += 1
        if n > 5000:
            raise Unanalysable("closure evaluation did not converge")
        while True:
            try:
                sub.step_block(x)
                if x.done is not None:
                    r = x.done
                    if r[0] == "cell" and r[1] == c:
                        tab = TABLES.get(r[2])
                        for b in mask_vals(x.cells[c]):
                            if tab[b]:
                                mask_true |= 1 << b
                        break
                    if r[0] != "int":
                        raise Unanalysable("closure returned %s" % r[0])
                    if r[1]:
                        mask_true |= x.cells[c]
                    break
            except Fork as f:
                for label, refine in f.choices:
                    x2 = x.clone()
                    if refine(x2) is False:
                        continue
                    work.append(x2)
                break
    if sub.violations:
        raise Unanalysable("closure body violates an obligation: %s" % sub.violations[0]["rule"])
    m.shared[key] = mask_true
    return mask_true


# =============================================================================================
# liveness of locals (to drop stale temporaries from states at loop heads)
# =============================================================================================
def place_uses(p, uses, addr_taken=None, as_def=False):
    if as_def and not p["pr"]:
        return p["l"]  # a definition
    uses.add(p["l"])
    for pe in p["pr"]:
        if pe[0] == "index":
            uses.add(pe[1])
    return None


def operand_uses(o, uses):
    if o["k"] in ("copy", "move"):
        place_uses(o["p"], uses)


def rvalue_uses(r, uses, always):
    k = r["k"]
    if k in ("use", "cast", "repeat"):
        operand_uses(r["o"], uses)
    elif k in ("ref", "rawptr"):
        place_uses(r["p"], uses)
        if not any(pe[0] == "deref" for pe in r["p"]["pr"]):
            always.add(r["p"]["l"])
    elif k == "binop":
        operand_uses(r["a"], uses)
        operand_uses(r["b"], uses)
    elif k == "unop":
        operand_uses(r["a"], uses)
    elif k == "discr":
        place_uses(r["p"], uses)
    elif k == "agg":
        for o in r["ops"]:
            operand_uses(o, uses)


def compute_liveness(prog):
    """inst id -> (live_in per block: list of frozensets, always-live set)."""
    out = {}
    for inst in prog.insts:
        b = inst["body"]
        if not b:
            continue
        blocks = b["blocks"]
        n = len(blocks)
        always = set([0])
        gen = [set() for _ in range(n)]
        kill = [set() for _ in range(n)]
        for bi, bl in enumerate(blocks):
            # process backwards to get gen/kill
            g, k_ = set(), set()
            items = []
            for s in bl["stmts"]:
                items.append(("s", s))
            items.append(("t", bl["term"]))
            for kind, x in reversed(items):
                uses = set()
                d = None
                if kind == "s":
                    if x["k"] == "assign":
                        d = place_uses(x["p"], uses, as_def=True)
                        rvalue_uses(x["r"], uses, always)
                    elif x["k"] == "setdiscr":
                        place_uses(x["p"], uses)
                    elif x["k"] == "assume":
                        operand_uses(x["o"], uses)
                    elif x["k"] == "dead":
                        d = x["l"]
                    elif x["k"] == "copy_nonoverlapping":
                        for f in ("src", "dst", "count"):
                            operand_uses(x[f], uses)
                else:
                    tk = x["k"]
                    if tk == "switch":
                        operand_uses(x["o"], uses)
                    elif tk == "call":
                        for a in x["args"]:
                            operand_uses(a, uses)
                        if "f" in x:
                            operand_uses(x["f"], uses)
                        d = place_uses(x["dest"], uses, as_def=True)
                    elif tk == "assert":
                        operand_uses(x["c"], uses)
                        for o in x.get("msg_ops", []):
                            operand_uses(o, uses)
                    elif tk == "drop":
                        place_uses(x["p"], uses)
                        if not any(pe[0] == "deref" for pe in x["p"]["pr"]):
                            always.add(x["p"]["l"])
                    elif tk == "return":
                        uses.add(0)
                if d is not None:
                    g.discard(d)
                    k_.add(d)
                g |= uses
                k_ -= uses
            gen[bi], kill[bi] = g, k_
        live_in = [set() for _ in range(n)]
        changed = True
        sc = [succs(bl) for bl in blocks]
        while changed:
            changed = False
            for bi in range(n - 1, -1, -1):
                lo = set()
                for s_ in sc[bi]:
                    lo |= live_in[s_]
                li = gen[bi] | (lo - kill[bi])
                if li != live_in[bi]:
                    live_in[bi] = li
                    changed = True
        # arguments whose address may be taken by the caller are ordinary locals here
        out[inst["id"]] = ([frozenset(x | always) for x in live_in], frozenset(always))
    return out


def drop_dead_locals(live, st, prog=None):
    for i, fr in enumerate(st.frames):
        li = live.get(fr.inst)
        if li is None:
            continue
        top = (i == len(st.frames) - 1)
        extra = ()
        if top:
            blk = fr.block
            if fr.stmt != 0:
                if prog is None:
                    continue
                # mid-block (summary head at the terminator): also keep what this block defined
                extra = set()
                for s_ in prog.insts[fr.inst]["body"]["blocks"][blk]["stmts"][: fr.stmt]:
                    if s_["k"] == "assign":
                        extra.add(s_["p"]["l"])
        else:
            blk = st.frames[i + 1].ret_block
            if blk is None:
                continue
        keep = li[0][blk]
        for l in list(fr.locals):
            if l not in keep and l not in extra:
                del fr.locals[l]
