"""Fact-file loader: instances, bodies, types, constants, statics."""
import re


class Program:
    def __init__(self, facts):
        self.f = facts
        self.types = facts["types"]
        self.insts = facts["instances"]
        self.allocs = facts["allocs"]
        self.statics = facts["statics"]
        self.items = facts["items"]
        self.ptr_bytes = facts["target"]["ptr_bytes"]
        self.endian = facts["target"]["endian"]
        self.arch = facts["target"]["arch"]
        self.debug_assertions = facts["debug_assertions"]
        self.overflow_checks = facts["overflow_checks"]
        self.ub_checks = facts["ub_checks"]
        self.cfgs = set(facts["cfgs"])
        self.by_path = {}
        for i in self.insts:
            self.by_path.setdefault(norm_path(i["path"]), []).append(i)
        for i in self.insts:
            i["npath"] = norm_path(i["path"])

    # ---- lookup ---------------------------------------------------------------------------
    def inst(self, iid):
        return self.insts[iid]

    def find(self, path):
        """Instances whose normalised def path equals `path`."""
        return self.by_path.get(path, [])

    def find1(self, path):
        l = self.find(path)
        if len(l) != 1:
            raise KeyError("expected exactly one instance for %s, found %d" % (path, len(l)))
        return l[0]

    def ty(self, tid):
        return self.types[tid]

    def tys(self, tid):
        return self.types[tid]["s"]

    def local_insts(self):
        return [i for i in self.insts if i["local"]]

    def live_blocks(self, inst):
        """Blocks reachable from the entry when branches on compile-time constants
        (`cfg!(debug_assertions)`, `if false`) are pruned."""
        c = inst.get("_live")
        if c is not None:
            return c
        b = inst["body"]
        blocks = b["blocks"]
        seen = set()
        work = [0]
        while work:
            n = work.pop()
            if n in seen:
                continue
            seen.add(n)
            bl = blocks[n]
            t = bl["term"]
            k = t["k"]
            nxt = []
            if k == "goto":
                nxt = [t["t"]]
            elif k == "switch":
                cv = None
                o = t["o"]
                if o["k"] == "const" and o["v"].get("k") == "int":
                    cv = o["v"]["v"]
                elif o["k"] in ("copy", "move") and not o["p"]["pr"]:
                    l = o["p"]["l"]
                    for s in bl["stmts"]:
                        if s["k"] == "assign" and s["p"]["l"] == l and not s["p"]["pr"]:
                            r = s["r"]
                            if r["k"] == "use" and r["o"]["k"] == "const" and r["o"]["v"].get("k") == "int":
                                cv = r["o"]["v"]["v"]
                            elif r["k"] == "use" and r["o"]["k"] == "runtime_checks":
                                w = r["o"]["what"]
                                cv = int(self.ub_checks) if w == "UbChecks" else (int(self.overflow_checks) if w == "OverflowChecks" else 0)
                            else:
                                cv = None
                if cv is not None:
                    tgt = t["otherwise"]
                    for tv, bb in t["targets"]:
                        if tv == cv:
                            tgt = bb
                    nxt = [tgt]
                else:
                    nxt = [bb for _, bb in t["targets"]] + [t["otherwise"]]
            elif k in ("call", "drop", "assert"):
                if t.get("t") is not None:
                    nxt = [t["t"]]
            work.extend(nxt)
        inst["_live"] = seen
        return seen

    def callees(self, inst, include_drops=True):
        """(callee instance id, terminator, block index) for every Call/Drop in a block that is
        reachable when constant branches are pruned."""
        out = []
        b = inst["body"]
        if not b:
            return out
        live = self.live_blocks(inst)
        for bi, bl in enumerate(b["blocks"]):
            if bi not in live:
                continue
            t = bl["term"]
            if t["k"] == "call":
                out.append((t["callee"], t, bi))
            elif t["k"] == "drop" and include_drops and t.get("glue") is not None:
                out.append((t["glue"], t, bi))
        return out

    def reachable(self, roots, follow=lambda inst: True):
        """Transitive closure over resolved calls and drop glue from instance ids `roots`."""
        seen = set()
        order = []
        stack = list(roots)
        while stack:
            i = stack.pop()
            if i in seen or i is None:
                continue
            seen.add(i)
            order.append(i)
            inst = self.insts[i]
            if not follow(inst):
                continue
            for c, t, _ in self.callees(inst):
                if c is not None and c not in seen:
                    stack.append(c)
            # fn items / closures mentioned as values (passed as `impl Fn`)
            b = inst["body"]
            if b:
                for c in self.mentioned_fns(inst):
                    if c not in seen:
                        stack.append(c)
        return order

    def mentioned_fns(self, inst):
        out = set()
        b = inst["body"]
        if not b:
            return out

        def walk(o):
            if isinstance(o, dict):
                if o.get("k") == "const":
                    t = self.types[o["ty"]]
                    if t["k"] == "fndef" and "inst" in t:
                        out.add(t["inst"])
                for v in o.values():
                    walk(v)
            elif isinstance(o, list):
                for v in o:
                    walk(v)

        walk(b["blocks"])
        return out


_LT = re.compile(r"::<'[a-z_0-9]+(?:, '[a-z_0-9]+)*>")
_LT2 = re.compile(r"<'[a-z_0-9]+(?:, '[a-z_0-9]+)*>")


_LT3 = re.compile(r"'[a-z_0-9]+, ")
_LT4 = re.compile(r", '[a-z_0-9]+(?=[,>])")


def norm_path(p):
    """Strip lifetime arguments so paths read like source paths and do not depend on whether a
    lifetime was named or elided."""
    p = _LT.sub("", p)
    p = _LT2.sub("", p)
    p = _LT3.sub("", p)
    p = _LT4.sub("", p)
    return p


def span_str(sp):
    if sp is None:
        return "?"
    if isinstance(sp, dict):
        return "%s (expanded at %s)" % (sp["cs"], sp["at"]) if sp.get("exp") else sp["at"]
    return sp


def span_site(sp):
    """The user-facing site of a span: the call site for macro expansions."""
    if sp is None:
        return "?"
    if isinstance(sp, dict):
        return sp["cs"]
    return sp


def tail_is(npath, name):
    """The (normalised) definition path ends in `name` (module prefixes are not part of an anchor:
    moving an item to another module must not unhinge the analysis)."""
    return npath == name or npath.endswith("::" + name)


def is_scanner_path(npath, names):
    """A byte-class scanner: one of the `match_*_vectored` functions, wherever it is defined."""
    return npath.split("::")[-1] in names and "{" not in npath
