"""Monitors: small automata run in product with the abstract machine (DESIGN.md §2.4)."""
from .absm import Fork, Unanalysable, Violation, mask_vals, mask_str, FULL, mask_of


class Monitor:
    """Base: observes nothing."""

    def clone(self):
        return self

    def key(self):
        return None

    def consume(self, m, st, cid, i):
        pass

    def commit(self, m, st, keep):
        pass

    def heap_store(self, m, st, name, path, v):
        pass

    def slot_store(self, m, st, loc, v):
        pass

    def yield_slot(self, m, st, item):
        pass

    def slots_exhausted(self, m, st, it):
        pass

    def on_str(self, m, st, s, ok):
        pass

    def enter(self, m, st, inst):
        pass

    def leave(self, m, st, inst, rv):
        pass

    def describe(self, st):
        return None

    def map_values(self, fv, floc):
        pass

    def symbols(self):
        return ()

    def cells(self):
        return ()

    def live_cells(self):
        """Cells the monitor may still need to see refined (keeps them out of abstraction)."""
        return ()

    def rename_cells(self, ren):
        pass

    def at_loop_head(self, m, st):
        pass

    def finish(self, m, st):
        pass


class ScannerContract(Monitor):
    """C12: every consumed byte is in class K; on return the scanner is at the end of input or
    in front of a byte outside K."""

    def __init__(self, cls_mask, name):
        self.K = cls_mask
        self.name = name
        self.pending = []  # consumed cells whose set is not (yet) inside K
        self.nconsumed = 0

    def clone(self):
        c = ScannerContract(self.K, self.name)
        c.pending = list(self.pending)
        c.nconsumed = self.nconsumed
        return c

    def key(self):
        return (tuple(self.pending), min(self.nconsumed, 1))

    def consume(self, m, st, cid, i):
        self.nconsumed += 1
        if st.cells[cid] & ~self.K & FULL:
            self.pending.append(cid)

    def cells(self):
        return tuple(self.pending)

    def live_cells(self):
        return tuple(self.pending)

    def rename_cells(self, ren):
        self.pending = [ren[c] for c in self.pending]

    def check_pending(self, m, st, when):
        for c in self.pending:
            bad = st.cells[c] & ~self.K & FULL
            if bad:
                m.violate(st, "scanner-consumed-out-of-class", "%s consumed a byte that may be %s (%s)" % (self.name, mask_str(bad), when))
        self.pending = []

    def at_loop_head(self, m, st):
        self.check_pending(m, st, "at loop head")

    def finish(self, m, st):
        self.check_pending(m, st, "at return")
        if st.tape:
            inside = st.cells[st.tape[0]] & self.K
            if inside:
                m.violate(st, "scanner-stopped-early", "%s returned in front of a byte that may be %s (in class)" % (self.name, mask_str(inside)))
        elif not st.eof:
            m.violate(st, "scanner-stopped-early", "%s returned without looking at the next byte although input may remain" % self.name)

    def describe(self, st):
        return {"scanner": self.name, "trace": st.trace[-12:]}
