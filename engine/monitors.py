"""Monitors: small automata run in product with the abstract machine (DESIGN.md §2.4)."""
from .absm import Fork, Unanalysable, Violation, mask_vals, mask_str, FULL, mask_of


class Monitor:
    """Base: observes nothing."""

    def clone(self):
        return self

    def key(self):
        return None

    def consume(self, m, st, cid, i):
        pass

    def commit(self, m, st, keep):
        pass

    def heap_store(self, m, st, name, path, v):
        pass

    def slot_store(self, m, st, loc, v):
        pass

    def yield_slot(self, m, st, item):
        pass

    def slots_exhausted(self, m, st, it):
        pass

    def on_str(self, m, st, s, ok):
        pass

    def enter(self, m, st, inst):
        pass

    def leave(self, m, st, inst, rv):
        pass

    def describe(self, st):
        return None

    def map_values(self, fv, floc):
        pass

    def symbols(self):
        return ()

    def cells(self):
        return ()

    def rename_cells(self, ren):
        pass

    def at_loop_head(self, m, st):
        pass

    def finish(self, m, st):
        pass
