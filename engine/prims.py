"""Modelled `core`/`std` leaf functions (trusted contracts, DESIGN.md §2.2 "Primitives").

Every primitive: prim(m, st, inst, args, term) -> value.  All decisions (which may raise Fork)
are taken before any mutation of the state, because a Fork re-executes the call."""
from .absm import (
    term_key,
    Fork, Unanalysable, Violation, mk_int, mk_bool, TRUE, FALSE, UNIT, UNINIT, sym_add, sym_norm,
    sym_of, mask_vals, mask_str, TABLES, FULL, mask_of,
)
from . import lanes

PRIMS = {}

ASCII = (1 << 128) - 1


def prim_key(p):
    """`std::` and `core::` name the same items of crate core depending on how the analysed crate
    is built (no_std builds print core:: paths)."""
    return p.replace("std::", "core::")


def prim(*paths):
    from .mir import norm_path

    def deco(f):
        for p in paths:
            PRIMS[prim_key(norm_path(p))] = f
        return f
    return deco


def usize(m, v):
    return mk_int(v, m.p.ptr_bytes * 8, False)


def some(v):
    return ("enum", 1, (v,))


NONE = ("enum", 0, ())


def read_arg_place(m, st, ptr, what="iterator"):
    if ptr[0] != "ptr":
        raise Unanalysable("%s passed by %s" % (what, ptr[0]))
    return ptr[1], m.read_loc(st, ptr[1], None)


# ---- slices ---------------------------------------------------------------------------------
@prim("core::slice::<impl [T]>::len", "core::str::<impl str>::len")
def slice_len(m, st, inst, args, t):
    v = args[0]
    if v[0] != "fat":
        raise Unanalysable("len of %s" % v[0])
    return v[2]


@prim("core::slice::<impl [T]>::as_ptr", "core::slice::<impl [T]>::as_mut_ptr", "core::str::<impl str>::as_ptr", "core::str::<impl str>::as_bytes")
def slice_as_ptr(m, st, inst, args, t):
    v = args[0]
    if v[0] != "fat":
        raise Unanalysable("as_ptr of %s" % v[0])
    if inst["npath"].endswith("as_bytes"):
        return v
    return ("ptr", v[1])


def check_buf_range(m, st, loc, length, what):
    """Obligation: [loc, loc+length) lies inside the caller's buffer."""
    pb = m.p.ptr_bytes * 8
    start = m.addr_of(loc, pb)
    end = sym_add(start, length)
    base = ("sym", (("B", 1),), 0, pb, False)
    eaddr = ("sym", (("E", 1),), 0, pb, False)
    ok1 = m.decide_sym_cmp(st, "Ge", start, base)
    ok2 = m.decide_sym_cmp(st, "Le", end, eaddr)
    ok3 = m.decide_sym_cmp(st, "Ge", length, mk_int(0, pb)) if length[0] != "int" else length[1] >= 0
    m.oblige(st, what, ok1 and ok2 and ok3, "range [%s, +%s) not proven inside the buffer" % (m.show_sym(start), m.show_sym(length)))


@prim("std::slice::from_raw_parts", "std::slice::from_raw_parts_mut")
def from_raw_parts(m, st, inst, args, t):
    p, n = args
    if p[0] != "ptr":
        raise Unanalysable("from_raw_parts on %s" % p[0])
    loc = p[1]
    if loc[0] == "B":
        check_buf_range(m, st, loc, n, "from_raw_parts-in-bounds")
        return m.mk_fat(st, loc, n)
    if loc[0] == "D":
        hi = sym_add(loc[2], n)
        ok = m.decide_sym_cmp(st, "Le", hi, ("sym", (("CAP:" + loc[1], 1),), 0, m.p.ptr_bytes * 8, False))
        m.oblige(st, "from_raw_parts-in-bounds", ok, "header slice beyond the caller's array")
        return ("fat", loc, n, None)
    if n[0] == "int" and n[1] == 0:
        return ("fat", loc, n, None)
    raise Unanalysable("from_raw_parts on location kind %s" % loc[0])


def header_slot(m, st, s, idx, checked):
    """`headers.get_mut(i)` / `get_unchecked_mut(i)` on the caller's header array: the index-style
    counterpart of pulling the next slot from `iter_mut()` (same events for the monitors)."""
    pb = m.p.ptr_bytes * 8
    ok = m.decide_sym_cmp(st, "Lt", idx, s[2])
    if not checked:
        m.oblige(st, "get_unchecked-in-bounds", ok, "get_unchecked(%s) on slice of length %s" % (m.show_sym(idx), m.show_sym(s[2])))
    elif not ok:
        if m.hooks is not None:
            m.hooks.on_slots_exhausted(m, st, None)
        return NONE
    item = ("ptr", ("D", s[1][1], sym_add(s[1][2], idx), ()))
    if m.hooks is not None:
        m.hooks.on_yield_slot(m, st, item)
    st.flags.pop("$since", None)
    return some(item) if checked else item


@prim("core::slice::<impl [T]>::get", "core::slice::<impl [T]>::get_mut")
def slice_get(m, st, inst, args, t):
    s, idx = args
    if s[0] == "fat" and s[1][0] == "D" and idx[0] in ("int", "sym") and not s[1][3]:
        return header_slot(m, st, s, idx, True)
    if s[0] != "fat" or idx[0] != "agg" or len(idx[1]) != 1:
        return NotImplemented
    n = idx[1][0]
    ok = m.decide_sym_cmp(st, "Le", n, s[2])
    if not ok:
        return NONE
    return some(m.mk_fat(st, s[1], n) if s[1][0] == "B" else ("fat", s[1], n, None))


@prim("core::slice::<impl [T]>::get_unchecked_mut", "core::slice::<impl [T]>::get_unchecked")
def slice_get_unchecked(m, st, inst, args, t):
    s, idx = args
    if s[0] == "fat" and s[1][0] == "D" and idx[0] in ("int", "sym") and not s[1][3]:
        return header_slot(m, st, s, idx, False)
    if s[0] != "fat" or idx[0] != "agg" or len(idx[1]) != 1:
        return NotImplemented
    n = idx[1][0]
    ok = m.decide_sym_cmp(st, "Le", n, s[2])
    m.oblige(st, "get_unchecked-in-bounds", ok, "get_unchecked(..%s) on slice of length %s" % (m.show_sym(n), m.show_sym(s[2])))
    return ("fat", s[1], n, None)


@prim("core::slice::index::<impl std::ops::Index<I> for [T]>::index", "core::slice::index::<impl std::ops::IndexMut<I> for [T]>::index_mut")
def slice_index(m, st, inst, args, t):
    s, idx = args
    if s[0] != "fat":
        raise Unanalysable("index of %s" % s[0])
    iname = ""
    for a in inst["args"]:
        if isinstance(a, int) and m.ty(a)["k"] == "adt" and "ops::Range" in m.ty(a)["path"]:
            iname = m.ty(a)["path"]
    if idx[0] != "agg":
        raise Unanalysable("slice index by %s" % idx[0])
    pb = m.p.ptr_bytes * 8
    zero = mk_int(0, pb)
    if iname.endswith("RangeTo"):
        lo, hi = zero, idx[1][0]
    elif iname.endswith("RangeFrom"):
        lo, hi = idx[1][0], s[2]
    elif iname.endswith("RangeFull"):
        lo, hi = zero, s[2]
    elif iname.endswith("RangeToInclusive"):
        lo, hi = zero, sym_add(idx[1][0], mk_int(1, pb))
    elif iname.endswith("Range"):
        lo, hi = idx[1]
    else:
        raise Unanalysable("slice index type %s" % iname)
    # bounds: lo <= hi <= len ; failing them is a panic (slice_index_fail)
    trim = None
    if hi[0] == "sym" and len(hi[1]) == 1 and isinstance(hi[1][0][0], str) and hi[1][0][0].startswith("R") and hi[1][0][1] == 1 and hi[2] == 1:
        r = st.rsyms.get(hi[1][0][0])
        if r is not None and r[2] == s[2] and r[0] == s[1]:
            trim = hi[1][0][0]
    ok1 = m.decide_sym_cmp(st, "Le", lo, hi) if trim is None else (lo[0] == "int" and lo[1] == 0)
    ok2 = True if trim is not None else m.decide_sym_cmp(st, "Le", hi, s[2])
    m.oblige(st, "slice-index-in-bounds", ok1 and ok2, "range %s..%s on slice of length %s" % (m.show_sym(lo), m.show_sym(hi), m.show_sym(s[2])))
    nloc = m.elem_loc(st, s[1], lo) if not (lo[0] == "int" and lo[1] == 0) else s[1]
    nlen = sym_add(hi, lo, -1)
    summ = None
    if trim is not None:
        summ = ("trim", trim, s[3])
    elif nlen[0] == "int" and nlen[1] == 0:
        summ = ("empty",)
    elif lo[0] == "int" and lo[1] == 0 and hi == s[2]:
        summ = s[3]
    elif s[3] is not None and s[3][0] in ("reg", "const"):
        # a sub-range of a summarised region: content is a subset; first byte no longer known
        summ = ("reg", s[3][1], FULL if not (lo[0] == "int" and lo[1] == 0) else (s[3][2] if s[3][0] == "reg" else FULL), None)
    return ("fat", nloc, nlen, summ)


@prim("<T as std::convert::TryInto<U>>::try_into", "<T as std::convert::TryFrom<U>>::try_from")
def try_into(m, st, inst, args, t):
    s = args[0]
    # only &[u8] -> [u8; N]
    dst = None
    for a in inst["args"]:
        if isinstance(a, int) and m.ty(a)["k"] == "array":
            dst = a
    if s[0] != "fat" or dst is None:
        return NotImplemented
    n = m.ty(dst)["len"]
    eq = m.decide_sym_cmp(st, "Eq", s[2], mk_int(n, 64))
    if not eq:
        return ("enum", 1, (("agg", (UNIT,)),))
    arr = []
    for i in range(n):
        loc = m.elem_loc(st, s[1], mk_int(i, 64))
        arr.append(m.read_loc(st, loc, m.ty(dst)["elem"]))
    return ("enum", 0, (("agg", tuple(arr)),))


# ---- pointers ---------------------------------------------------------------------------------
def ptr_move(m, st, p, n, sign, what):
    if p[0] != "ptr":
        raise Unanalysable("%s on %s" % (what, p[0]))
    loc = p[1]
    if sign < 0:
        if n[0] == "int":
            n = mk_int(-n[1], 0, True)
        else:
            n = sym_norm([(s, -c) for s, c in n[1]], -n[2], n[3], True)
    nloc = m.elem_loc(st, loc, n)
    if loc[0] == "B":
        pb = m.p.ptr_bytes * 8
        a = m.addr_of(nloc, pb)
        ok1 = m.decide_sym_cmp(st, "Ge", a, ("sym", (("B", 1),), 0, pb, False))
        ok2 = m.decide_sym_cmp(st, "Le", a, ("sym", (("E", 1),), 0, pb, False))
        m.oblige(st, "ptr-%s-in-bounds" % what, ok1 and ok2, "%s(%s) leaves the buffer: %s" % (what, m.show_sym(n), m.show_sym(a)))
    elif loc[0] == "D":
        pass
    return ("ptr", nloc)


@prim("std::ptr::const_ptr::<impl *const T>::add", "std::ptr::mut_ptr::<impl *mut T>::add")
def ptr_add(m, st, inst, args, t):
    return ptr_move(m, st, args[0], args[1], 1, "add")


@prim("std::ptr::const_ptr::<impl *const T>::sub", "std::ptr::mut_ptr::<impl *mut T>::sub")
def ptr_sub(m, st, inst, args, t):
    return ptr_move(m, st, args[0], args[1], -1, "sub")


@prim("std::ptr::const_ptr::<impl *const T>::offset", "std::ptr::mut_ptr::<impl *mut T>::offset",
      "std::ptr::const_ptr::<impl *const T>::wrapping_add", "std::ptr::const_ptr::<impl *const T>::wrapping_sub")
def ptr_offset(m, st, inst, args, t):
    sign = -1 if inst["npath"].endswith("wrapping_sub") else 1
    return ptr_move(m, st, args[0], args[1], sign, "offset")


@prim("std::ptr::const_ptr::<impl *const T>::offset_from", "std::ptr::const_ptr::<impl *const T>::offset_from_unsigned",
      "std::ptr::mut_ptr::<impl *mut T>::offset_from", "std::ptr::const_ptr::<impl *const T>::byte_offset_from")
def ptr_offset_from(m, st, inst, args, t):
    a, b = args
    if a[0] != "ptr" or b[0] != "ptr" or a[1][0] != "B" or b[1][0] != "B":
        raise Unanalysable("offset_from on non-buffer pointers")
    pb = m.p.ptr_bytes * 8
    unsigned = inst["npath"].endswith("unsigned")
    d = sym_add(m.addr_of(a[1], pb, st), m.addr_of(b[1], pb, st), -1, pb, not unsigned)
    if unsigned:
        ok = m.decide_sym_cmp(st, "Ge", d, mk_int(0, pb))
        m.oblige(st, "offset_from_unsigned", ok, "offset_from_unsigned with smaller first operand")
    return d


@prim("std::mem::take")
def mem_take(m, st, inst, args, t):
    loc, old = read_arg_place(m, st, args[0], "mem::take target")
    ty = m.ty(inst["args"][0])
    if ty["k"] == "ref" and m.ty(ty["to"])["k"] in ("slice", "str"):
        new = ("fat", ("Z", ty.get("align", 1)), mk_int(0, m.p.ptr_bytes * 8), ("empty",))
    else:
        return NotImplemented
    m.write_loc(st, loc, new)
    return old


@prim("std::mem::replace")
def mem_replace(m, st, inst, args, t):
    loc, old = read_arg_place(m, st, args[0], "mem::replace target")
    m.write_loc(st, loc, args[1])
    return old


@prim("std::mem::swap")
def mem_swap(m, st, inst, args, t):
    la, a = read_arg_place(m, st, args[0])
    lb, b = read_arg_place(m, st, args[1])
    m.write_loc(st, la, b)
    m.write_loc(st, lb, a)
    return UNIT


# ---- panics -----------------------------------------------------------------------------------
@prim("core::panicking::panic", "core::panicking::panic_fmt", "std::rt::begin_panic", "core::panicking::panic_nounwind",
      "core::panicking::panic_nounwind_fmt", "core::panicking::panic_explicit", "core::panicking::unreachable_display",
      "core::panicking::panic_bounds_check", "core::slice::index::slice_index_fail", "core::option::unwrap_failed",
      "core::result::unwrap_failed", "core::option::expect_failed", "core::panicking::assert_failed",
      "std::rt::panic_fmt", "core::panicking::panic_const::panic_const_add_overflow", "std::process::abort", "std::intrinsics::abort")
def panic(m, st, inst, args, t):
    msg = ""
    if args and args[0][0] == "fat" and args[0][3] is not None and args[0][3][0] == "const":
        msg = bytes(args[0][3][2]).decode("utf-8", "replace")
    m.violate(st, "panic-reachable", "call to %s is reachable%s" % (inst["npath"], (": " + msg) if msg else ""))


# ---- strings -----------------------------------------------------------------------------------
def summ_content(summ):
    if summ is None:
        return None
    if summ[0] in ("reg", "const"):
        return summ[1]
    if summ[0] == "empty":
        return 0
    if summ[0] == "trim":
        return summ_content(summ[2])
    return None


@prim("std::str::from_utf8_unchecked", "std::str::from_utf8_unchecked_mut")
def from_utf8_unchecked(m, st, inst, args, t):
    s = args[0]
    if s[0] != "fat":
        raise Unanalysable("from_utf8_unchecked of %s" % s[0])
    c = summ_content(s[3])
    ok = c is not None and (c & ~ASCII) == 0
    if s[3] is not None and s[3][0] == "const":
        try:
            bytes(s[3][2]).decode("utf-8")
            ok = True
        except UnicodeDecodeError:
            ok = False
    m.oblige(st, "from_utf8_unchecked-ascii", ok,
             "argument may contain %s" % (mask_str(c & ~ASCII) if c is not None else "bytes of an unsummarised region"), fatal=False)
    if m.hooks is not None:
        m.hooks.on_str(m, st, s, True)
    return s


@prim("std::str::from_utf8", "core::str::converts::from_utf8")
def from_utf8(m, st, inst, args, t):
    s = args[0]
    if s[0] != "fat":
        raise Unanalysable("from_utf8 of %s" % s[0])
    if m.hooks is not None:
        m.hooks.on_region_scan(m, st, s, "UTF-8 validation")
    c = summ_content(s[3])
    if c is not None and (c & ~ASCII) == 0:
        ok = True
    else:
        name = "utf8_valid"
        if name in st.env:
            ok = st.env[name]
        else:
            def setv(val):
                def f(s_):
                    s_.env[name] = val
                return f
            raise Fork([("utf8-valid", setv(True)), ("utf8-invalid", setv(False))], "UTF-8 validity of a region")
    if m.hooks is not None:
        m.hooks.on_str(m, st, s, ok)
    if ok:
        return ("enum", 0, (s,))
    return ("enum", 1, (("top", "Utf8Error"),))


@prim("core::slice::ascii::<impl [u8]>::is_ascii", "core::str::<impl str>::is_ascii")
def is_ascii(m, st, inst, args, t):
    s = args[0]
    if s[0] != "fat":
        raise Unanalysable("is_ascii of %s" % s[0])
    if m.hooks is not None:
        m.hooks.on_region_scan(m, st, s, "is_ascii scan")
    c = summ_content(s[3])
    if c is None:
        raise Unanalysable("is_ascii over an unsummarised region")
    if (c & ~ASCII) == 0:
        return TRUE
    if (c & ASCII) == 0 and not (s[3][0] == "reg" and s[3][3] is not True):
        return FALSE
    name = "region_ascii"
    if name in st.env:
        return mk_bool(st.env[name])

    def setv(val):
        def f(s_):
            s_.env[name] = val
        return f
    raise Fork([("ascii", setv(True)), ("non-ascii", setv(False))], "whether a region is ASCII")


ASCII_WS = mask_of(lambda b: b in (9, 10, 11, 12, 13, 32))


@prim("core::str::<impl str>::trim_start", "core::str::<impl str>::trim_end", "core::str::<impl str>::trim",
      "core::slice::ascii::<impl [u8]>::trim_ascii_start", "core::slice::ascii::<impl [u8]>::trim_ascii_end", "core::slice::ascii::<impl [u8]>::trim_ascii")
def str_trim(m, st, inst, args, t):
    s = args[0]
    if s[0] != "fat":
        raise Unanalysable("trim of %s" % s[0])
    if m.hooks is not None:
        m.hooks.on_region_scan(m, st, s, "trim scan")
    name = inst["npath"].split("::")[-1]
    c = summ_content(s[3])
    if s[3] is not None and s[3][0] == "empty":
        return s
    if c is None or (c & ~ASCII):
        raise Unanalysable("%s over a region that may hold non-ASCII bytes" % name)
    front = "start" in name or name in ("trim", "trim_ascii")
    back = "end" in name or name in ("trim", "trim_ascii")
    if not (c & ASCII_WS):
        return s  # nothing to strip anywhere
    first = s[3][2] if s[3][0] == "reg" else FULL
    if front and not back and not (first & ASCII_WS):
        return s
    # an unknown number of bytes is stripped: a sub-slice with symbolic bounds
    pb = m.p.ptr_bytes * 8
    n = len(st.rsyms) + 1
    k = "R%d" % n
    st.rsyms[k] = (s[1], -1, s[2])
    lo = ("sym", ((k, 1),), 0, pb, False) if front else mk_int(0, pb)
    nloc = m.elem_loc(st, s[1], lo) if front else s[1]
    nlen = ("sym", ((k + "n", 1),), 0, pb, False)
    return ("fat", nloc, nlen, ("reg", c, (first & ~ASCII_WS & FULL) if front else first, None))


@prim("core::slice::<impl [T]>::contains")
def slice_contains(m, st, inst, args, t):
    s, needle = args[0], args[1]
    if s[0] != "fat":
        raise Unanalysable("contains on %s" % s[0])
    if m.hooks is not None:
        m.hooks.on_region_scan(m, st, s, "contains scan")
        m.hooks.on_lookahead_scan(m, st, s, "contains scan")
    c = summ_content(s[3])
    nv = m.read_loc(st, needle[1], None) if needle[0] == "ptr" else needle
    if c is not None and nv[0] == "int":
        if not ((c >> (nv[1] & 0xFF)) & 1):
            return FALSE
    i = m.choose(st, "contains@%s" % m.where(st), ["absent", "present"])
    if i == 0 and nv[0] == "int" and s[1][0] == "B" and m.buf_rel(st, s[1]) == 0:
        # the whole remaining input is free of that byte: constrain the look-ahead cells and every
        # cell materialised later
        bit = 1 << (nv[1] & 0xFF)
        for c_ in st.tape:
            if not st.refine(c_, FULL & ~bit):
                raise Violation("infeasible")
        st.flags["tape_excl"] = st.flags.get("tape_excl", 0) | bit
    return mk_bool(i == 1)


# ---- iterators over slices ---------------------------------------------------------------------
@prim("core::slice::<impl [T]>::iter")
def slice_iter(m, st, inst, args, t):
    s = args[0]
    if s[0] != "fat":
        raise Unanalysable("iter of %s" % s[0])
    if m.hooks is not None:
        # an iterator over already-consumed input announces a linear pass over it
        m.hooks.on_region_scan(m, st, s, "iteration")
    return ("prim", "iter", s, mk_int(0, m.p.ptr_bytes * 8))


@prim("core::slice::<impl [T]>::iter_mut")
def slice_iter_mut(m, st, inst, args, t):
    s = args[0]
    if s[0] != "fat":
        raise Unanalysable("iter_mut of %s" % s[0])
    if s[1][0] == "D":
        return ("prim", "itermut", s[1][1], s[1][2], sym_add(s[1][2], s[2]))
    if s[2][0] == "int" and s[2][1] == 0:
        return ("prim", "itermut", "EMPTY", mk_int(0, 64), mk_int(0, 64))
    raise Unanalysable("iter_mut over location kind %s" % s[1][0])


@prim("std::iter::Iterator::copied", "std::iter::Iterator::cloned")
def iter_copied(m, st, inst, args, t):
    if args[0][0] != "prim":
        return NotImplemented
    return ("prim", "copied", args[0])


@prim("std::iter::Iterator::enumerate")
def iter_enumerate(m, st, inst, args, t):
    if args[0][0] != "prim":
        return NotImplemented
    return ("prim", "enum", args[0], mk_int(0, m.p.ptr_bytes * 8))


@prim("<I as std::iter::IntoIterator>::into_iter")
def into_iter(m, st, inst, args, t):
    if args[0][0] == "prim":
        return args[0]
    if args[0][0] == "fat":
        return ("prim", "iter", args[0], mk_int(0, m.p.ptr_bytes * 8))
    return NotImplemented


def iter_next(m, st, it, elem_tid):
    """(item or None, new iterator state) — pure."""
    k = it[1]
    if k == "iter":
        s, idx = it[2], it[3]
        more = m.decide_sym_cmp(st, "Lt", idx, s[2])
        if not more:
            return None, it
        loc = m.elem_loc(st, s[1], idx)
        return ("ptr", loc), ("prim", "iter", s, sym_add(idx, mk_int(1, 64)))
    if k == "copied":
        item, inner = iter_next(m, st, it[2], elem_tid)
        if item is None:
            return None, it
        u8 = None
        for i, ty in enumerate(m.p.types):
            if ty and ty["k"] == "int" and ty["size"] == 1 and not ty["signed"]:
                u8 = i
                break
        v = m.read_loc(st, item[1], u8)
        return v, ("prim", "copied", inner)
    if k == "enum":
        item, inner = iter_next(m, st, it[2], elem_tid)
        if item is None:
            return None, it
        return ("agg", (it[3], item)), ("prim", "enum", inner, sym_add(it[3], mk_int(1, 64)))
    if k == "itermut":
        arr, pos, end = it[2], it[3], it[4]
        same = m.decide_sym_cmp(st, "Eq", pos, end)
        if same:
            return None, it
        return ("ptr", ("D", arr, pos, ())), ("prim", "itermut", arr, sym_add(pos, mk_int(1, 64)), end)
    raise Unanalysable("next on iterator kind %s" % k)


@prim("<std::iter::Enumerate<I> as std::iter::Iterator>::next", "<std::slice::Iter<'a, T> as std::iter::Iterator>::next",
      "<std::slice::IterMut<'a, T> as std::iter::Iterator>::next", "<std::iter::Copied<I> as std::iter::Iterator>::next",
      "<std::iter::Cloned<I> as std::iter::Iterator>::next")
def iterator_next(m, st, inst, args, t):
    loc, it = read_arg_place(m, st, args[0])
    if it[0] != "prim":
        return NotImplemented
    item, new = iter_next(m, st, it, None)
    if item is not None:
        st.flags.pop("$since", None)  # a finite iterator advanced: progress
    if item is None:
        if it[1] == "itermut" and m.hooks is not None:
            m.hooks.on_slots_exhausted(m, st, it)
        return NONE
    if it[1] == "itermut" and m.hooks is not None:
        m.hooks.on_yield_slot(m, st, item)
    m.write_loc(st, loc, new)
    return some(item)


@prim("std::iter::ExactSizeIterator::len", "<std::slice::IterMut<'a, T> as std::iter::ExactSizeIterator>::len",
      "<std::slice::Iter<'a, T> as std::iter::ExactSizeIterator>::len", "<std::slice::IterMut<'_, T> as std::iter::ExactSizeIterator>::len",
      "<std::slice::Iter<'_, T> as std::iter::ExactSizeIterator>::len")
def iterator_len(m, st, inst, args, t):
    loc, it = read_arg_place(m, st, args[0])
    if it[0] != "prim":
        return NotImplemented
    if it[1] == "itermut":
        return sym_add(it[4], it[3], -1)
    if it[1] == "iter":
        return sym_add(it[2][2], it[3], -1)
    return NotImplemented


def closure_predicate(m, st, clo_val, clo_tid, elem_mode):
    """Evaluate a `FnMut(&u8) -> bool` closure body on all 256 byte values (table lookup of
    an abstract function, not an execution of httparse on input): returns mask of bytes
    for which it returns true."""
    from .explore import run_pure
    cty = m.ty(clo_tid)
    # find the closure's instance: FnMut::call_mut resolved at the call site is in inst args
    raise NotImplementedError


@prim("<std::slice::Iter<'a, T> as std::iter::Iterator>::all", "<std::slice::Iter<'a, T> as std::iter::Iterator>::any")
def iter_all_any(m, st, inst, args, t):
    from .explore import closure_table
    loc, it = read_arg_place(m, st, args[0])
    if it[0] != "prim" or it[1] != "iter":
        return NotImplemented
    if not (it[3][0] == "int" and it[3][1] == 0):
        raise Unanalysable("all/any on partially consumed iterator")
    s = it[2]
    P = closure_table(m, st, inst, args[1], None)
    is_all = inst["npath"].endswith("::all")
    if s[2][0] == "int" and s[2][1] == 0:
        return TRUE if is_all else FALSE
    if s[1][0] in ("L", "H", "A") and s[2][0] == "int" and s[2][1] <= 64:
        # a short slice of a local / constant array (e.g. the block a scanner has peeked): element-wise
        u8 = None
        for i, ty in enumerate(m.p.types):
            if ty and ty["k"] == "int" and ty["size"] == 1 and not ty["signed"]:
                u8 = i
                break
        for i in range(s[2][1]):
            v = m.read_loc(st, m.elem_loc(st, s[1], mk_int(i, 64)), u8)
            if v[0] == "int":
                holds = bool((P >> (v[1] & 0xFF)) & 1)
            elif v[0] == "cell" and v[2] == TABLES.ident:
                mask = st.cells[v[1]]
                inside, outside = mask & P, mask & ~P & FULL
                if inside and outside:
                    c_ = v[1]
                    raise Fork([("pred-holds", lambda s_, c_=c_: s_.refine(c_, P)), ("pred-fails", lambda s_, c_=c_: s_.refine(c_, FULL & ~P))], "predicate on a block byte")
                holds = bool(inside)
            else:
                raise Unanalysable("all/any over derived byte values")
            if is_all and not holds:
                return FALSE
            if not is_all and holds:
                return TRUE
        return TRUE if is_all else FALSE
    j = lookahead_prefix(m, st, s)
    if j is not None:
        # the measured look-ahead [cursor, token+j): its cells and the pending run
        tok, idx, back = st.ahead
        if st.run is not None and -j > back:
            m.unfold_run(st, from_back=True)
        if idx + back + j < 0:
            raise Unanalysable("all/any over a slice that starts at the cursor and ends before it")
        cells = st.tape[:idx + back + j]
        content = st.run or 0
        for c_ in cells:
            content |= st.cells[c_]
        good = P if is_all else (FULL & ~P)  # the class every byte has when all()=true / any()=false
        if (content & ~good & FULL) == 0:
            return TRUE if is_all else FALSE
        bad = FULL & ~good
        cands = [k_ for k_, c_ in enumerate(cells) if st.cells[c_] & bad]
        in_run = st.run is not None and (st.run & bad) != 0
        labels = ["uniform"] + ["exception@%d" % k_ for k_ in cands] + (["exception-in-run"] if in_run else [])
        i = m.choose(st, "lookahead-pred@%s" % m.where(st), labels)
        if i == 0:
            for c_ in cells:
                if not st.refine(c_, good):
                    raise Violation("infeasible")
            if st.run is not None:
                st.run &= good
            return TRUE if is_all else FALSE
        if i <= len(cands):
            # the first exception is this cell: the ones before it are uniform
            k_ = cands[i - 1]
            for c_ in cells[:k_]:
                if not st.refine(c_, good):
                    raise Violation("infeasible")
            if not st.refine(cells[k_], bad):
                raise Violation("infeasible")
            if k_ >= idx and st.run is not None:
                st.run &= good  # the run lies in front of this cell
        else:
            # some byte of the pending run is an exception (the cells in front of the run are not)
            for c_ in cells[:idx]:
                if not st.refine(c_, good):
                    raise Violation("infeasible")
            st.flags["run_has"] = st.run & bad
        return FALSE if is_all else TRUE
    c = summ_content(s[3])
    if c is None:
        raise Unanalysable("all/any over an unsummarised region")
    if is_all:
        if (c & ~P & FULL) == 0:
            return TRUE
    else:
        if (c & P) == 0:
            return FALSE
    name = "region_pred:%d" % inst["id"]
    if name in st.env:
        return mk_bool(st.env[name])

    def setv(val):
        def f(s_):
            s_.env[name] = val
        return f
    raise Fork([("pred-true", setv(True)), ("pred-false", setv(False))], "predicate over a summarised region")


@prim("<std::slice::Iter<'a, T> as std::iter::Iterator>::rposition", "<std::slice::Iter<'a, T> as std::iter::Iterator>::position")
def iter_rposition(m, st, inst, args, t):
    from .explore import closure_table
    loc, it = read_arg_place(m, st, args[0])
    if it[0] != "prim" or it[1] != "iter":
        return NotImplemented
    rev = inst["npath"].endswith("rposition")
    if not rev:
        s = it[2]
        if not (it[3][0] == "int" and it[3][1] == 0):
            raise Unanalysable("position on partially consumed iterator")
        clo_tid = inst["args"][-1] if isinstance(inst["args"][-1], int) else None
        P = closure_table(m, st, inst, args[1], clo_tid)
        kind, n = scan_run(m, st, s, FULL & ~P, "position scan")
        # the iterator is left behind the found element (or exhausted): not modelled further
        m.write_loc(st, loc, ("prim", "spent"))
        return some(n) if kind == "stop" else NONE
    s = it[2]
    if not (it[3][0] == "int" and it[3][1] == 0):
        raise Unanalysable("rposition on partially consumed iterator")
    clo_tid = inst["args"][-1] if isinstance(inst["args"][-1], int) else None
    P = closure_table(m, st, inst, args[1], clo_tid)  # mask of bytes where the predicate holds
    if m.hooks is not None:
        m.hooks.on_region_scan(m, st, s, "rposition scan")
    summ = s[3]
    pb = m.p.ptr_bytes * 8
    # decide Some / None from the region summary
    if s[2][0] == "int" and s[2][1] == 0:
        return NONE
    if summ is None:
        raise Unanalysable("rposition over an unsummarised region")
    if summ[0] == "empty":
        return NONE
    if summ[0] == "const":
        idx = None
        for i, b in enumerate(summ[2]):
            if (P >> b) & 1:
                idx = i
        return NONE if idx is None else some(usize(m, idx))
    if summ[0] != "reg":
        raise Unanalysable("rposition over region summary %s" % summ[0])
    content, first, nonempty = summ[1], summ[2], summ[3]
    if nonempty is None:
        # emptiness of the region undecided: ask for the length
        ne = m.decide_sym_cmp(st, "Gt", s[2], mk_int(0, pb))
        nonempty = ne
    if not nonempty:
        return NONE
    if content & P == 0:
        return NONE
    if first & ~P & FULL != 0:
        # first byte may fail the predicate: whether any byte satisfies it is not determined
        name = "rposition_found"
        if name not in st.flags:
            def setv(val):
                def f(s_):
                    s_.flags[name] = val
                    s_.flags["imprecise"] = True
                return f
            raise Fork([("found", setv(True)), ("none", setv(False))], "rposition over summarised region")
        found = st.flags[name]
        if not found:
            return NONE
    # Some(i): i = index of the last byte satisfying P — a fresh symbol with i < len
    n = len(st.rsyms) + 1
    name = "R%d" % n
    # canonical: reuse the name if an identical record exists
    for k_, v_ in st.rsyms.items():
        if v_ == (s[1], P, s[2]):
            name = k_
            break
    st.rsyms[name] = (s[1], P, s[2])
    return some(("sym", ((name, 1),), 0, pb, False))


def lookahead_prefix(m, st, s):
    """j <= 0 when s is the measured look-ahead without its last -j bytes, [cursor, token+j); else None."""
    if st.ahead is None or s[0] != "fat" or s[1][0] != "B":
        return None
    r = st.rel_pos(s[1][1], s[1][2])
    if r is None or r[2] != 1 or r[0] != 0 or r[1] != 0:
        return None
    pb = m.p.ptr_bytes * 8
    end = sym_add(m.addr_of(s[1], pb), s[2])
    if end[0] != "sym":
        return None
    j = m.ahead_rel(st, ("B", end[1], end[2]))
    return j if j is not None and j <= 0 else None


# ---- measured look-ahead: count / position over the remaining input -----------------------------
def scan_run(m, st, s, K, what):
    """`s` must be exactly the remaining input.  Decides how many leading bytes lie in class K:
    ('stop', n) a byte outside K follows after n bytes, ('eof', n) the input ends after n bytes.
    n is an int while the answer lies within the look-ahead already materialised, otherwise the
    distance from the cursor to a fresh position token in front of which a run of K-bytes of
    unknown length is recorded on the tape (unfolded on demand)."""
    pb = m.p.ptr_bytes * 8
    if s[0] != "fat" or s[1][0] != "B":
        raise Unanalysable("%s over something that is not the input buffer" % what)
    if "$run_scan" in st.flags:
        kind = st.flags.pop("$run_scan")
        tok = st.ahead[0]
        # the distance from the start of the slice (the implementation's own expression of the
        # cursor position) to the measured position
        return kind, sym_add(("sym", ((tok, 1),), 0, pb, False), m.addr_of(s[1], pb), -1)
    r = st.rel_pos(s[1][1], s[1][2])
    end = sym_add(m.addr_of(s[1], pb), s[2])
    whole = False
    if end[0] == "sym":
        d = sym_add(end, ("sym", (("E", 1),), 0, pb, False), -1, bits=0, signed=True)
        whole = (d[0] == "int" and d[1] == 0) or (d[0] == "sym" and m.sym_bounds(st, d) == (0, 0))
    if r is None or r[2] != 1 or r[0] != 0 or r[1] != 0 or not whole:
        raise Unanalysable("%s over a slice that is not the whole remaining input (%s, %s)" % (what, r, m.show_sym(end) if end[0] == "sym" else end))
    if st.ahead is not None:
        m.violate(st, "lookahead-rescanned", "%s starts a second measuring pass over look-ahead that an earlier pass measured and the cursor has not passed yet" % what, fatal=False)
        raise Unanalysable("second measured look-ahead pass while the first is unconsumed")
    for i, c in enumerate(st.tape):
        mask = st.cells[c]
        inside, outside = mask & K, mask & ~K & FULL
        if inside and outside:
            raise Fork([("in-class", lambda s_, c=c: s_.refine(c, K)), ("out-of-class", lambda s_, c=c: s_.refine(c, ~K & FULL))], "measured byte class")
        if not inside:
            return "stop", mk_int(i, pb)
    n = len(st.tape)
    if st.eof:
        return "eof", mk_int(n, pb)
    name = "A" if "A" not in st.chain else "A%d" % (st.ntok + 1)

    def with_stop(s_):
        mask = FULL & ~K & ~s_.flags.get("tape_excl", 0)
        if not mask:
            return False
        c = s_.new_cell(mask)
        s_.tape.append(c)
        s_.ahead = (name, n, 0)
        s_.run = K & ~s_.flags.get("tape_excl", 0)
        s_.flags["$run_scan"] = "stop"
        if m.hooks is not None:
            m.hooks.on_materialise(m, s_, c)

    def with_eof(s_):
        s_.eof = True
        s_.ahead = (name, n, 0)
        s_.run = K & ~s_.flags.get("tape_excl", 0)
        s_.flags["$run_scan"] = "eof"
        if m.hooks is not None:
            m.hooks.on_eof(m, s_)

    raise Fork([("run-then-byte", with_stop), ("run-then-end", with_eof)], "measured look-ahead")


@prim("std::iter::Iterator::take_while")
def iter_take_while(m, st, inst, args, t):
    if args[0][0] != "prim" or args[0][1] != "iter":
        return NotImplemented
    clo_tid = inst["args"][-1] if inst.get("args") and isinstance(inst["args"][-1], int) else None
    return ("prim", "takewhile", args[0], args[1], clo_tid)


@prim("std::iter::Iterator::count")
def iter_count(m, st, inst, args, t):
    from .explore import closure_table
    it = args[0]
    if it[0] != "prim":
        return NotImplemented
    if it[1] == "iter":
        return sym_add(it[2][2], it[3], -1)
    if it[1] != "takewhile":
        return NotImplemented
    inner = it[2]
    if not (inner[3][0] == "int" and inner[3][1] == 0):
        raise Unanalysable("take_while on a partially consumed iterator")
    K = closure_table(m, st, inst, it[3], it[4], by_type=True)
    kind, n = scan_run(m, st, inner[2], K, "take_while(..).count()")
    return n


# ---- option / result helpers that are simpler modelled than interpreted -----------------------
@prim("std::ops::RangeInclusive::<Idx>::contains")
def range_contains(m, st, inst, args, t):
    rloc, r = read_arg_place(m, st, args[0], "range")
    iloc, item = read_arg_place(m, st, args[1], "item")
    if r[0] != "agg":
        return NotImplemented
    lo, hi = r[1][0], r[1][1]
    a = m.binop(st, "Le", lo, item)
    b = m.binop(st, "Le", item, hi)
    return m.binop(st, "BitAnd", a, b)


@prim("std::intrinsics::raw_eq")
def raw_eq(m, st, inst, args, t):
    a, b = args
    if a[0] != "ptr" or b[0] != "ptr":
        raise Unanalysable("raw_eq on %s,%s" % (a[0], b[0]))
    tid = inst["args"][0] if inst["args"] and isinstance(inst["args"][0], int) else None
    va = m.read_loc(st, a[1], tid)
    vb = m.read_loc(st, b[1], tid)
    return values_equal(m, st, va, vb)


@prim("std::intrinsics::compare_bytes")
def compare_bytes(m, st, inst, args, t):
    """memcmp over n bytes (slice equality / ordering, starts_with, ends_with)."""
    a, b, n = args
    if a[0] != "ptr" or b[0] != "ptr" or n[0] != "int" or n[1] > 64:
        raise Unanalysable("compare_bytes on %s,%s,%s" % (a[0], b[0], n[0]))
    u8 = None
    for i, ty in enumerate(m.p.types):
        if ty and ty["k"] == "int" and ty["size"] == 1 and not ty["signed"]:
            u8 = i
            break
    for i in range(n[1]):
        va = m.read_loc(st, m.elem_loc(st, a[1], mk_int(i, 64)), u8)
        vb = m.read_loc(st, m.elem_loc(st, b[1], mk_int(i, 64)), u8)
        eq = m.concretize(st, m.binop(st, "Eq", va, vb))
        if eq[1] == 0:
            lt = m.concretize(st, m.binop(st, "Lt", va, vb))
            return mk_int(-1 if lt[1] else 1, 32, True)
    return mk_int(0, 32, True)


def values_equal(m, st, va, vb):
    if va[0] == "agg" and vb[0] == "agg" and len(va[1]) == len(vb[1]):
        for x, y in zip(va[1], vb[1]):
            r = values_equal(m, st, x, y)
            if r == FALSE:
                return FALSE
        return TRUE
    r = m.concretize(st, m.binop(st, "Eq", va, vb))
    return mk_bool(r[1] != 0)


# ---- atomics / statics / cpu features ----------------------------------------------------------
@prim("std_detect::detect::arch::x86::__is_feature_detected::avx2", "std_detect::detect::arch::x86::__is_feature_detected::sse4_2",
      "std_detect::detect::arch::x86::__is_feature_detected::sse2", "std_detect::detect::arch::x86::__is_feature_detected::avx",
      "std_detect::detect::arch::x86::__is_feature_detected::sse4_1", "std_detect::detect::arch::x86::__is_feature_detected::ssse3")
def feature_detected(m, st, inst, args, t):
    name = "cpu:" + inst["npath"].split("::")[-1]
    return ("env", name, True)


def static_key(m, st, loc):
    if loc[0] != "S":
        raise Unanalysable("atomic access to non-static location")
    return m.p.statics[loc[1]]["path"]


def cpu_key(st):
    return tuple(sorted((k, v) for k, v in st.env.items() if k.startswith("cpu:")))


@prim("std::sync::atomic::Atomic::<u8>::load", "std::sync::atomic::Atomic::<usize>::load", "std::sync::atomic::Atomic::<bool>::load",
      "std::sync::atomic::Atomic::<u32>::load")
def atomic_load(m, st, inst, args, t):
    p = args[0]
    if p[0] != "ptr":
        raise Unanalysable("atomic load through %s" % p[0])
    path = static_key(m, st, p[1])
    init = m.nav(st, m.static_value(p[1][1]), p[1][2])
    while init[0] == "agg" and len(init[1]) == 1:
        init = init[1][0]
    if init[0] != "int":
        raise Unanalysable("atomic static with non-integer initializer")
    name = "static:" + path
    if name in st.env:
        return mk_int(st.env[name], init[2], init[3])
    # the CPU feature bits must be fixed first: a cached value was stored under the same CPU
    for fname in m.shared.get("cpu_features", []):
        if fname not in st.env:
            m.concretize(st, ("env", fname, True))
    stored = sorted(m.shared.setdefault("static_stores", {}).get((path, cpu_key(st)), set()))
    vals = [init[1]] + [v for v in stored if v != init[1]]

    def setv(val):
        def f(s_):
            s_.env[name] = val
        return f

    if len(vals) == 1:
        st.env[name] = vals[0]
        return mk_int(vals[0], init[2], init[3])
    raise Fork([("%s=%d" % (name, v), setv(v)) for v in vals], "value of a shared static (any interleaving)")


@prim("std::sync::atomic::Atomic::<u8>::store", "std::sync::atomic::Atomic::<usize>::store", "std::sync::atomic::Atomic::<bool>::store",
      "std::sync::atomic::Atomic::<u32>::store")
def atomic_store(m, st, inst, args, t):
    p, v = args[0], args[1]
    if p[0] != "ptr":
        raise Unanalysable("atomic store through %s" % p[0])
    path = static_key(m, st, p[1])
    v = m.concretize(st, v)
    key = (path, cpu_key(st))
    ss = m.shared.setdefault("static_stores", {}).setdefault(key, set())
    if v[1] not in ss:
        ss.add(v[1])
        m.shared["static_stores_changed"] = True
    if m.hooks is not None:
        m.hooks.on_static_store(m, st, path, v[1])
    # this thread's later loads may still see any stored value or its own: keep env as the
    # value just stored (program order on one location)
    st.env["static:" + path] = v[1]
    return UNIT


# ---- integers -----------------------------------------------------------------------------------
@prim("core::num::<impl usize>::from_ne_bytes", "core::num::<impl u64>::from_ne_bytes", "core::num::<impl u32>::from_ne_bytes",
      "core::num::<impl usize>::from_le_bytes", "core::num::<impl u64>::from_le_bytes", "core::num::<impl u32>::from_le_bytes",
      "core::num::<impl usize>::from_be_bytes", "core::num::<impl u64>::from_be_bytes", "core::num::<impl u32>::from_be_bytes",
      "core::num::<impl u16>::from_ne_bytes", "core::num::<impl u16>::from_le_bytes", "core::num::<impl u16>::from_be_bytes")
def from_bytes(m, st, inst, args, t):
    a = args[0]
    if a[0] != "agg":
        raise Unanalysable("from_*_bytes of %s" % a[0])
    n = len(a[1])
    order = inst["npath"].split("_")[-2]  # ne / le / be
    return lanes.word_from_bytes(m, st, a[1], n * 8, False, order)


@prim("core::num::<impl usize>::to_ne_bytes", "core::num::<impl u64>::to_ne_bytes", "core::num::<impl u32>::to_ne_bytes",
      "core::num::<impl usize>::to_le_bytes", "core::num::<impl u64>::to_le_bytes", "core::num::<impl u32>::to_le_bytes",
      "core::num::<impl usize>::to_be_bytes", "core::num::<impl u64>::to_be_bytes", "core::num::<impl u32>::to_be_bytes")
def to_bytes(m, st, inst, args, t):
    order = inst["npath"].split("_")[-2]
    v = args[0]
    bits = v[2] if v[0] in ("int", "word") else v[3]
    return lanes.word_to_bytes(m, st, v, bits // 8, order)


@prim("core::num::<impl usize>::wrapping_sub", "core::num::<impl u64>::wrapping_sub", "core::num::<impl u32>::wrapping_sub",
      "core::num::<impl usize>::wrapping_add", "core::num::<impl u64>::wrapping_add", "core::num::<impl u32>::wrapping_add",
      "core::num::<impl u8>::wrapping_sub", "core::num::<impl u8>::wrapping_add")
def wrapping_arith(m, st, inst, args, t):
    op = "Sub" if inst["npath"].endswith("sub") else "Add"
    a, b = args
    if a[0] in ("word",) or b[0] in ("word",):
        return lanes.binop(m, st, "Wrapping" + op, a, b)
    if a[0] == "int" and b[0] == "int":
        from .absm import arith
        r, _ = arith(op, a[1], b[1], a[2], a[3])
        return mk_int(r, a[2], a[3])
    if a[0] in ("cell", "int") and b[0] in ("cell", "int"):
        # single-cell: exact wrapping table
        return m.byte_binop(st, op, a, b, True)[1][0]
    raise Unanalysable("wrapping arithmetic on %s,%s" % (a[0], b[0]))


@prim(*["core::num::<impl %s>::saturating_%s" % (ty, op) for ty in ("u8", "u16", "u32", "u64", "usize") for op in ("sub", "add")])
def saturating_arith(m, st, inst, args, t):
    from .absm import int_range
    sub = inst["npath"].endswith("sub")
    a, b = args
    if a[0] not in ("int", "cell") or b[0] not in ("int", "cell"):
        raise Unanalysable("saturating arithmetic on %s,%s" % (a[0], b[0]))
    bits, signed = (a[2], a[3]) if a[0] == "int" else (a[3], a[4])
    lo, hi = int_range(bits, signed)

    def f(x, y):
        return max(lo, min(hi, x - y if sub else x + y))

    if a[0] == "int" and b[0] == "int":
        return mk_int(f(a[1], b[1]), bits, signed)
    if a[0] == "cell" and b[0] == "cell" and a[1] != b[1]:
        raise Unanalysable("saturating arithmetic on two different input bytes")
    cid = a[1] if a[0] == "cell" else b[1]
    ta = TABLES.get(a[2]) if a[0] == "cell" else None
    tb = TABLES.get(b[2]) if b[0] == "cell" else None
    tab = tuple(f(ta[i] if ta else a[1], tb[i] if tb else b[1]) for i in range(256))
    return m.mk_cell(st, cid, tab, bits, signed)


@prim("core::num::<impl u16>::trailing_ones", "core::num::<impl u32>::trailing_ones", "core::num::<impl u64>::trailing_ones",
      "core::num::<impl u16>::trailing_zeros", "core::num::<impl u32>::trailing_zeros", "core::num::<impl u64>::trailing_zeros",
      "core::num::<impl i32>::trailing_zeros", "core::num::<impl i32>::trailing_ones",
      "core::num::<impl u16>::leading_zeros", "core::num::<impl u32>::leading_zeros", "core::num::<impl u64>::leading_zeros",
      "core::num::<impl u16>::leading_ones", "core::num::<impl u32>::leading_ones", "core::num::<impl u64>::leading_ones",
      "core::num::<impl u16>::count_ones", "core::num::<impl u32>::count_ones")
def bit_count(m, st, inst, args, t):
    return lanes.bit_count(m, st, inst["npath"].split("::")[-1], args[0])


def install(m):
    m.prims.update(PRIMS)
    lanes.install(m)


# ---- scanner summaries (justified by the C12 contract proved separately on the same tree) ------
TCHAR = mask_of(lambda b: (48 <= b <= 57) or (65 <= b <= 90) or (97 <= b <= 122) or chr(b) in "!#$%&'*+-.^_`|~")
URI = mask_of(lambda b: 0x21 <= b <= 0x7E or b >= 0x80)
HVAL = mask_of(lambda b: b == 9 or 0x20 <= b <= 0x7E or b >= 0x80)
SCANNER_CLASSES = {"match_uri_vectored": URI, "match_header_value_vectored": HVAL, "match_header_name_vectored": TCHAR}


def scanner_summary(cls_mask):
    from .absm import REPEAT

    def f(m, st, inst, args, t):
        p = args[0]
        if p[0] != "ptr":
            raise Unanalysable("scanner called with %s" % p[0])
        ci = m.bytes_field_index("cursor")
        cloc = m.loc_push(p[1], ci)
        cur = m.read_loc(st, cloc, None)
        if cur[0] != "ptr" or cur[1][0] != "B" or m.buf_rel(st, cur[1]) != 0:
            raise Unanalysable("scanner summary: cursor is not the tape position")
        if not m.need_tape(st, 1):
            return UNIT
        c = st.tape[0]
        mask = st.cells[c]
        inside, outside = mask & cls_mask, mask & ~cls_mask & FULL
        if inside and outside:
            raise Fork([("in-class", lambda s: s.refine(c, cls_mask)), ("out-of-class", lambda s: s.refine(c, ~cls_mask & FULL))], "scanner class")
        if not inside:
            return UNIT
        new = ("ptr", m.elem_loc(st, cur[1], mk_int(1, 64)))
        if m.hooks is not None:
            m.hooks.on_bytes_field_store(m, st, "cursor", cloc, new)
        m.write_loc(st, cloc, new)
        return REPEAT

    return f


def install_scanner_summaries(m, verified):
    """verified: iterable of instance npaths whose contract was proved (C12)."""
    n = 0
    for np_ in verified:
        name = np_.split("::")[-1]
        if name in SCANNER_CLASSES:
            m.prims[prim_key(np_)] = scanner_summary(SCANNER_CLASSES[name])
            n += 1
    return n
