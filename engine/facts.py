"""Build matrix + fact extraction: runs `cargo +nightly check` on /repo's current working tree
with the mirdump driver injected, one fact file per build configuration.

Nothing of httparse is executed here except its build script (build tooling) and the
compiler's own constant evaluation.
"""
import hashlib
import json
import os
import shutil
import subprocess
import sys
import tempfile
import time

VERIF = os.path.dirname(os.path.dirname(os.path.abspath(__file__)))
REPO = os.environ.get("VERIF_REPO", "/repo")
DRIVER = os.path.join(VERIF, "tools", "mirdump", "target", "release", "mirdump")
CACHE = os.path.join(VERIF, ".cache")

# id -> (target or None, rustflags extra, env extra, cargo args extra)
CONFIGS = {
    "B0": dict(target=None, flags="", env={}, args=[], desc="host x86_64, default features: runtime dispatch avx2/sse42/swar"),
    "B1": dict(target=None, flags="-C target-feature=+sse4.2", env={}, args=[], desc="compile-time sse4.2"),
    "B2": dict(target=None, flags="-C target-feature=+avx2", env={}, args=[], desc="compile-time avx2"),
    "B3": dict(target=None, flags="", env={"CARGO_CFG_HTTPARSE_DISABLE_SIMD": "1"}, args=[], desc="SIMD disabled: swar only"),
    "B4": dict(target=None, flags="", env={}, args=["--no-default-features"], desc="no_std: swar only"),
    "B5": dict(target=None, flags="-C target-feature=+avx2", env={"CARGO_CFG_HTTPARSE_DISABLE_SIMD_COMPILETIME": "1"}, args=[], desc="runtime dispatch despite +avx2"),
    "B6": dict(target="i686-unknown-linux-gnu", flags="", env={}, args=[], desc="x86 32-bit: 4-byte SWAR"),
    "B7": dict(target="aarch64-unknown-linux-gnu", flags="", env={}, args=[], desc="aarch64 NEON"),
    "B8": dict(target="s390x-unknown-linux-gnu", flags="", env={}, args=[], desc="big-endian 8-byte SWAR"),
    "B9": dict(target="powerpc-unknown-linux-gnu", flags="", env={}, args=[], desc="big-endian 4-byte SWAR"),
}
PROFILES = ("debug", "release")


def tree_hash():
    """Hash of the analysed inputs of /repo's working tree (contents, not git state)."""
    h = hashlib.sha256()
    paths = []
    for root, dirs, files in os.walk(os.path.join(REPO, "src")):
        dirs.sort()
        for f in sorted(files):
            paths.append(os.path.join(root, f))
    # Cargo.lock is not an analysed input: the library has no dependencies, and cargo creates the
    # file on the first build of a fresh checkout (which must not change the key)
    for f in ("build.rs", "Cargo.toml"):
        p = os.path.join(REPO, f)
        if os.path.exists(p):
            paths.append(p)
    for p in paths:
        h.update(p.encode())
        with open(p, "rb") as fh:
            h.update(fh.read())
    # the analyser itself is part of the key: a changed engine must not reuse old results
    for root, dirs, files in os.walk(os.path.join(VERIF, "engine")):
        dirs.sort()
        for f in sorted(files):
            if f.endswith(".py"):
                with open(os.path.join(root, f), "rb") as fh:
                    h.update(fh.read())
    if os.path.exists(DRIVER):
        st = os.stat(DRIVER)
        h.update(("%d:%d" % (st.st_size, int(st.st_mtime))).encode())
    return h.hexdigest()[:24]


def sysroot():
    return subprocess.check_output(["rustc", "+nightly", "--print", "sysroot"], text=True).strip()


_SYSROOT = None


def cargo_env(extra_flags, extra_env, profile):
    global _SYSROOT
    if _SYSROOT is None:
        _SYSROOT = sysroot()
    env = dict(os.environ)
    env["LD_LIBRARY_PATH"] = _SYSROOT + "/lib" + (":" + env["LD_LIBRARY_PATH"] if env.get("LD_LIBRARY_PATH") else "")
    flags = "-Zmir-opt-level=0 -Awarnings"
    if profile == "release":
        # release *semantics* (no debug assertions, no overflow checks) with unoptimised MIR
        flags += " -C debug-assertions=off -C overflow-checks=off"
    else:
        flags += " -C debug-assertions=on -C overflow-checks=on"
    if extra_flags:
        flags += " " + extra_flags
    env["RUSTFLAGS"] = flags
    env["CARGO_NET_OFFLINE"] = "true"
    env.pop("CARGO_CFG_HTTPARSE_DISABLE_SIMD", None)
    env.pop("CARGO_CFG_HTTPARSE_DISABLE_SIMD_COMPILETIME", None)
    env.update(extra_env)
    return env


def extract(config, profile, out_path, with_driver=True, quiet=True):
    """Run cargo check for one configuration; returns (ok, log). Fact file at out_path."""
    c = CONFIGS[config]
    tgt = tempfile.mkdtemp(prefix="vf-tgt-")
    try:
        env = cargo_env(c["flags"], c["env"], profile)
        if with_driver:
            env["RUSTC_WORKSPACE_WRAPPER"] = DRIVER
            env["MIRDUMP_OUT"] = out_path
            env["MIRDUMP_CONFIG"] = "%s-%s" % (config, profile)
        env["CARGO_TARGET_DIR"] = tgt
        cmd = ["cargo", "+nightly", "check", "--offline", "--lib"] + c["args"]
        if c["target"]:
            cmd += ["--target", c["target"], "-Zbuild-std=std" if "--no-default-features" not in c["args"] else "-Zbuild-std=core"]
        p = subprocess.run(cmd, cwd=REPO, env=env, stdout=subprocess.PIPE, stderr=subprocess.STDOUT, text=True)
        ok = p.returncode == 0 and (not with_driver or os.path.exists(out_path))
        return ok, p.stdout
    finally:
        shutil.rmtree(tgt, ignore_errors=True)


def facts_path(config, profile, th=None):
    th = th or tree_hash()
    d = os.path.join(CACHE, th)
    os.makedirs(d, exist_ok=True)
    return os.path.join(d, "facts-%s-%s.json" % (config, profile))


def get_facts(config="B0", profile="debug", th=None):
    """Load (extracting if needed) the fact file for one configuration of the current tree."""
    p = facts_path(config, profile, th)
    if not os.path.exists(p):
        if not os.path.exists(DRIVER):
            raise RuntimeError("mirdump driver not built: run ./setup.sh")
        tmp = p + ".tmp%d" % os.getpid()
        ok, log = extract(config, profile, tmp)
        if not ok:
            if os.path.exists(tmp):
                os.remove(tmp)
            raise BuildError(config, profile, log)
        os.replace(tmp, p)
    with open(p) as fh:
        return json.load(fh)


class BuildError(Exception):
    def __init__(self, config, profile, log):
        super().__init__("build of %s-%s failed" % (config, profile))
        self.config, self.profile, self.log = config, profile, log


def prune_cache(keep=3):
    if not os.path.isdir(CACHE):
        return
    ds = sorted((os.path.getmtime(os.path.join(CACHE, d)), d) for d in os.listdir(CACHE))
    for _, d in ds[:-keep]:
        shutil.rmtree(os.path.join(CACHE, d), ignore_errors=True)


if __name__ == "__main__":
    cfg = sys.argv[1] if len(sys.argv) > 1 else "B0"
    prof = sys.argv[2] if len(sys.argv) > 2 else "debug"
    t = time.time()
    f = get_facts(cfg, prof)
    print(cfg, prof, len(f["instances"]), "instances", "%.1fs" % (time.time() - t))
