"""Job runner: one exploration per (build configuration, profile, root, option preset), in
worker processes, with results memoised per analysed tree."""
import hashlib
import json
import multiprocessing as mp
import os
import sys
import time
import traceback

from . import facts as F
from .mir import Program
from . import mir as M

ENTRY_ROOTS = [
    "Request::parse", "Request::parse_with_uninit_headers", "ParserConfig::parse_request",
    "ParserConfig::parse_request_with_uninit_headers", "Response::parse", "ParserConfig::parse_response",
    "ParserConfig::parse_response_with_uninit_headers", "parse_headers", "parse_chunk_size",
]

# option fields used to split configured roots into parallel jobs
SPLIT = {
    "ParserConfig::parse_request": ["ignore_invalid_headers_in_requests"],
    "ParserConfig::parse_request_with_uninit_headers": ["ignore_invalid_headers_in_requests"],
    "ParserConfig::parse_response": ["ignore_invalid_headers_in_responses", "allow_obsolete_multiline_headers_in_responses",
                                     "allow_spaces_after_header_name_in_responses"],
    "ParserConfig::parse_response_with_uninit_headers": ["ignore_invalid_headers_in_responses", "allow_obsolete_multiline_headers_in_responses",
                                                         "allow_spaces_after_header_name_in_responses"],
}


def entry_jobs(config="B0", profile="debug", roots=None, summaries=True, monitor="spec"):
    jobs = []
    for r in roots or ENTRY_ROOTS:
        fields = SPLIT.get(r, [])
        n = len(fields)
        for bits in range(1 << n):
            preset = {"cfg:" + f: bool((bits >> i) & 1) for i, f in enumerate(fields)}
            jobs.append({"kind": "entry", "config": config, "profile": profile, "root": r, "preset": preset, "summaries": summaries, "monitor": monitor})
    return jobs


def scanner_jobs(prog, config="B0", profile="debug"):
    from . import prims as PR
    jobs = []
    for i in prog.insts:
        if i["local"] and i["body"] and M.is_scanner_path(i["npath"], PR.SCANNER_CLASSES):
            jobs.append({"kind": "scanner", "config": config, "profile": profile, "root": i["npath"]})
    return jobs


BYTES_FNS = ["parse_uri", "parse_version", "parse_method"]


def bytesfn_jobs(prog, config="B0", profile="debug"):
    """The doc(hidden) `_benchable` functions take `&mut Bytes`: safe to call with any cursor state
    the safe Bytes API can produce."""
    jobs = []
    for name in BYTES_FNS:
        if any(i["local"] and i["body"] and i["npath"] == name for i in prog.insts):
            jobs.append({"kind": "bytesfn", "config": config, "profile": profile, "root": name})
    return jobs


def job_key(job):
    return hashlib.sha256(json.dumps(job, sort_keys=True).encode()).hexdigest()[:20]


_PROG_CACHE = {}


def load_prog(config, profile, th):
    k = (config, profile, th)
    if k not in _PROG_CACHE:
        _PROG_CACHE[k] = Program(F.get_facts(config, profile, th))
    return _PROG_CACHE[k]


def scanner_names(prog):
    from . import prims as PR
    return [i["npath"] for i in prog.insts
            if i["local"] and i["body"] and M.is_scanner_path(i["npath"], PR.SCANNER_CLASSES)]


def dead_job(job, why):
    return {"job": job, "ok": True, "states": 0, "transitions": 0, "results": 0, "keys": 0, "subsumed": 0,
            "budget": why, "obligations": {}, "violations": [], "unanalysable": [], "verdicts": {}, "instances": [], "sample_paths": []}


def run_job(args):
    import gc
    gc.collect()
    job, th, budget = args
    t0 = time.time()
    out = {"job": job, "ok": False}
    # a batch of jobs shares one wall-clock allowance: on a tree whose explorations all diverge the
    # check must still end (each remaining job then reports the exhausted budget, fail closed)
    secs = budget.get("seconds", 1500)
    if budget.get("deadline"):
        secs = min(secs, budget["deadline"] - t0)
    if secs < 5:
        return dead_job(job, "time allowance of the whole batch exhausted before this exploration started")
    budget = dict(budget, seconds=secs)
    try:
        from . import explore as E, roots, spec as S, prims as PR, monitors as MON
        prog = load_prog(job["config"], job["profile"], th)
        ex = E.Explorer(prog, max_states=budget.get("states", 600000), max_seconds=budget.get("seconds", 1500))
        ex.max_rss_kb = int(budget.get("mem_gb", 0) * 1048576) or None
        if job["kind"] == "entry":
            st, kind = roots.initial_state(ex.m, job["root"])
            st.mon = S.spec_for_root(job["root"], kind)
            for k, v in job.get("preset", {}).items():
                st.env[k] = v
            if job.get("summaries", True):
                skip = set(job.get("no_summary") or ())
                PR.install_scanner_summaries(ex.m, [n for n in scanner_names(prog) if n not in skip])
        elif job["kind"] == "bytesfn":
            inst = [i for i in prog.insts if i["npath"] == job["root"] and i["local"] and i["body"]]
            if len(inst) != 1:
                raise RuntimeError("function %s not found" % job["root"])
            st = roots.bytes_state(ex.m, inst[0]["id"])
            st.mon = MON.Monitor()
            PR.install_scanner_summaries(ex.m, scanner_names(prog))
        else:
            inst = [i for i in prog.insts if i["npath"] == job["root"] and i["local"] and i["body"]]
            if len(inst) != 1:
                raise RuntimeError("scanner instance %s not found" % job["root"])
            st = roots.bytes_state(ex.m, inst[0]["id"])
            name = job["root"].split("::")[-1]
            st.mon = MON.ScannerContract(PR.SCANNER_CLASSES[name], job["root"])
            PR.install_scanner_summaries(ex.m, [n for n in scanner_names(prog) if n != job["root"]])
        budget_hit = None
        try:
            ex.run([st])
        except E.Budget as b:
            budget_hit = str(b)
        m = ex.m
        out.update({
            "ok": True,
            "states": ex.nstates, "transitions": ex.ntrans, "results": len(ex.results), "keys": len(ex.visited),
            "subsumed": ex.nsubsumed, "budget": budget_hit,
            "obligations": {k: [v[0], v[1], v[2]] for k, v in m.obl.items()},
            "violations": [dict(v, count=m.vcount.get((v["rule"], v["detail"]), 1), eof_paths=sorted(m.veof.get((v["rule"], v["detail"]), ())),
                                options_on=sorted(m.vcfg.get((v["rule"], v["detail"]), ())),
                                default_alive=sorted(m.vdef.get((v["rule"], v["detail"]), ()))) for v in m.violations],
            "unanalysable": dedup_unanalysable(ex.unanalysable),
            "options_decided": sorted(k[4:] for k in m.cfg_decided if k.startswith("cfg:")),
            "verdicts": verdict_histogram(ex.results),
            "instances": sorted(set(visited_instances(ex, prog))),
            "sample_paths": sample_paths(ex),
        })
    except Exception as e:  # noqa
        out["error"] = "%s: %s" % (type(e).__name__, e)
        out["traceback"] = traceback.format_exc()[-3000:]
    out["wall_s"] = round(time.time() - t0, 2)
    return out


def sample_paths(ex, n=6):
    """A few explored abstract paths written out: byte classes consumed (reference state:class),
    environment choices, verdict."""
    out = []
    step = max(1, len(ex.results) // n)
    for r in ex.results[::step][:n]:
        mon = r.mon
        hist = list(getattr(mon, "hist", ()))[-24:]
        d = r.done
        try:
            if d[0] == "enum" and d[1] == 1:
                v = "Err"
            elif d[0] == "enum" and d[2] and d[2][0][0] == "enum":
                v = "Complete" if d[2][0][1] == 0 else "Partial"
            else:
                v = "returned"
        except Exception:
            v = "returned"
        out.append({"consumed_classes": hist, "choices": r.trace[-8:], "options": {k: val for k, val in r.env.items() if k.startswith("cfg:")},
                    "end_of_input_observed": bool(r.eof), "verdict": v})
    return out


def dedup_unanalysable(lst):
    seen = {}
    for u in lst:
        k = (u["what"], u["where"])
        if k not in seen:
            seen[k] = dict(u, count=0, phases=[], options=[])
            seen[k].pop("phase", None)
            seen[k].pop("options_on", None)
        e = seen[k]
        e["count"] += 1
        if u.get("phase") not in e["phases"]:
            e["phases"].append(u.get("phase"))
        if "options_on" in u and list(u["options_on"]) not in e["options"] and len(e["options"]) < 130:
            e["options"].append(list(u["options_on"]))
    return list(seen.values())[:200]


def verdict_histogram(results):
    h = {}
    for r in results:
        d = r.done
        try:
            if d[0] == "enum" and d[1] == 1:
                k = "Err"
            elif d[0] == "enum" and d[2] and d[2][0][0] == "enum":
                k = "Complete" if d[2][0][1] == 0 else "Partial"
            else:
                k = "returned"
        except Exception:
            k = "returned"
        h[k] = h.get(k, 0) + 1
    return h


def visited_instances(ex, prog):
    for k in ex.visited:
        for fr in k[0]:
            yield prog.insts[fr[0]]["npath"]


def run_jobs(jobs, budget=None, procs=None, use_cache=True, th=None):
    th = th or F.tree_hash()
    budget = budget or {}
    cdir = os.path.join(F.CACHE, th)
    os.makedirs(cdir, exist_ok=True)
    results = [None] * len(jobs)
    todo = []
    for i, j in enumerate(jobs):
        p = os.path.join(cdir, "job-%s.json" % job_key(j))
        if use_cache and os.path.exists(p):
            try:
                with open(p) as fh:
                    results[i] = json.load(fh)
                continue
            except Exception:
                pass
        todo.append(i)
    if todo:
        # make sure the fact files exist before forking workers
        for cfg, prof in sorted(set((jobs[i]["config"], jobs[i]["profile"]) for i in todo)):
            F.get_facts(cfg, prof, th)
        procs = procs or min(len(todo), int(os.environ.get("VERIF_PROCS", "16")))
        budget = dict(budget, deadline=time.time() + budget.get("total_seconds", 900))
        args = [(jobs[i], th, budget) for i in todo]
        # longest first
        mem_gb = float(os.environ.get("VERIF_MEM_GB", "0") or 0)
        if not mem_gb:
            total = 64.0
            try:
                with open("/proc/meminfo") as fh:
                    for line in fh:
                        if line.startswith("MemTotal:"):
                            total = int(line.split()[1]) / 1048576.0
                            break
            except Exception:
                pass
            mem_gb = max(1.5, 0.7 * total / max(procs, 1))
        budget = dict(budget, mem_gb=mem_gb)
        args = [(jobs[i], th, budget) for i in todo]
        if procs > 1:
            # a worker that dies (e.g. killed for memory) must not hang the batch: every unfinished
            # exploration is then reported as out of budget (fail closed)
            import concurrent.futures as cf
            from concurrent.futures.process import BrokenProcessPool
            outs = [None] * len(args)
            ex = cf.ProcessPoolExecutor(max_workers=procs, mp_context=mp.get_context("fork"))
            workers = []
            try:
                futs = [ex.submit(run_job, a) for a in args]
                workers = list((getattr(ex, "_processes", None) or {}).values())
                for k, fut in enumerate(futs):
                    left = budget["deadline"] - time.time() + 120
                    try:
                        outs[k] = fut.result(timeout=max(left, 5))
                    except (BrokenProcessPool, cf.TimeoutError, Exception) as e:  # noqa
                        outs[k] = dead_job(args[k][0], "worker process lost (%s)" % type(e).__name__)
            finally:
                lost = any(o is not None and o.get("budget", "") and str(o["budget"]).startswith("worker process lost") for o in outs)
                ex.shutdown(wait=not lost, cancel_futures=True)
                if lost:
                    for pr in workers:
                        try:
                            pr.kill()
                        except Exception:
                            pass
        else:
            outs = [run_job(a) for a in args]
        for i, o in zip(todo, outs):
            results[i] = o
            if True:
                # results (including failures) are deterministic for a given tree and engine
                p = os.path.join(cdir, "job-%s.json" % job_key(jobs[i]))
                tmp = p + ".tmp%d" % os.getpid()
                with open(tmp, "w") as fh:
                    json.dump(o, fh)
                os.replace(tmp, p)
    return results
