"""Reference grammars (DESIGN.md Appendix A) as monitors running in product with the abstract
machine.  Written from the property statements: classes are literal; each reference is a one-pass
deterministic recogniser over the consumed bytes with absorbing verdicts.

The monitor is driven by `consume` events (one per byte the cursor passes), resolves the fold
look-ahead from the not-yet-consumed tape at store/return time, compares every stored field with
the field the reference delimits, and compares the verdict at return.  A disagreement is recorded
as a violation with a class (verdict / offset / errkind / field / order / partial) and the
grammar phase it occurred in, which the property modules map to C03, C05-C11, C14."""
from .absm import Fork, Unanalysable, Violation, mask_of, mask_vals, mask_str, FULL, TABLES, mk_int, sym_add, sym_norm, sym_of
from .monitors import Monitor


def M(*items):
    m = 0
    for it in items:
        if isinstance(it, int):
            m |= 1 << it
        elif isinstance(it, str):
            for ch in it:
                m |= 1 << ord(ch)
        else:
            a, b = it
            for v in range(a, b + 1):
                m |= 1 << v
    return m


# literal classes from the property statements
DIGIT = M((0x30, 0x39))
ALPHA = M((0x41, 0x5A), (0x61, 0x7A))
TCHAR = ALPHA | DIGIT | M("!#$%&'*+-.^_`|~")
URI = M((0x21, 0x7E), (0x80, 0xFF))
VAL = M(0x09, (0x20, 0x7E), (0x80, 0xFF))
WS = M(0x20, 0x09)
SP = M(0x20)
CR = M(0x0D)
LF = M(0x0A)
NUL = M(0x00)
COLON = M(":")
HEXD = M((0x30, 0x39))
HEXL = M((0x61, 0x66))
HEXU = M((0x41, 0x46))
SEMI = M(";")
REASON_OK = M(0x09, 0x20, (0x21, 0x7E))
OBS = M((0x80, 0xFF))
VISIBLE_STOP = FULL & ~(M(0x20, 0x09, 0x0D, 0x0A))  # bytes that end the trailing-whitespace trim

DUMMY_LOC = ("B", (("B", 1),), 0)
ERRS = ("HeaderName", "HeaderValue", "NewLine", "Status", "Token", "TooManyHeaders", "Version")


def other(*masks):
    m = FULL
    for x in masks:
        m &= ~x
    return m & FULL


class Split(Exception):
    def __init__(self, parts):
        self.parts = parts


class SpecMon(Monitor):
    def __init__(self, kind, root, opts):
        self.kind = kind  # request | response | headers | chunk
        self.root = root
        self.opts = opts  # option name -> ('const', bool) | ('env', key)
        self.q = ("E0",) if kind in ("request", "response") else (("L",) if kind == "headers" else ("D", 0))
        self.marks = {}  # name -> location ('B', terms, const)
        self.exp = {}  # field -> expected value description
        self.got = {}  # field -> True once the implementation stored it
        self.pend = None  # completed header line not yet stored: (name_s, name_e, val_s, val_e, started)
        self.nstored = mk_int(0, 64)
        self.verdict = None  # ('complete', loc) | ('err', kind)
        self.vals = {}  # version / code / size as machine values
        self.flags = {}  # obs, started, exhausted
        self.hist = ()  # class string of consumed bytes (for reports only)
        self.phase = "start-line" if kind in ("request", "response") else ("headers" if kind == "headers" else "chunk")
        self.nconsumed = 0
        self.slotq = None
        self.last_end = None  # end of the most recently stored buffer slice (C04 ordering)
        # C03 framing detector: ('start'|'line0'|'in'|'cr0'|'lost') + fired position
        self.det = ("start",) if kind in ("request", "response") else (("line0",) if kind == "headers" else ("c0",))
        self.det_at = None
        self.det_pending = ()  # bytes consumed after the reference rejected: classified only if needed
        self.dflt = None  # the default-options reference running alongside (configured roots only)
        self.lite = False  # lite: only the automaton state is tracked (no positions, no values)

    def clone(self):
        c = SpecMon.__new__(SpecMon)
        c.__dict__.update(self.__dict__)
        if self.dflt is not None:
            c.dflt = self.dflt.clone()
        c.marks = dict(self.marks)
        c.exp = dict(self.exp)
        c.got = dict(self.got)
        c.vals = dict(self.vals)
        c.flags = dict(self.flags)
        return c

    def key(self):
        return (self.q, tuple(sorted(self.marks.items())), tuple(sorted(self.exp.items())), tuple(sorted(self.got.items())), self.pend,
                self.nstored, self.verdict, tuple(sorted(self.vals.items())), tuple(sorted(self.flags.items())), self.phase, min(self.nconsumed, 1),
                self.last_end, self.det, self.det_at, self.dflt.q[0] == "ERR" if self.dflt is not None else None, self.det_pending)

    # ---- plumbing ---------------------------------------------------------------------------
    def map_values(self, fv, floc):
        if self.dflt is not None:
            self.dflt.map_values(fv, floc)
        self.marks = {k: floc(v) for k, v in self.marks.items()}
        self.exp = {k: self.map_exp(v, fv, floc) for k, v in self.exp.items()}
        if self.pend is not None:
            self.pend = tuple(floc(x) if isinstance(x, tuple) and x and x[0] == "B" else x for x in self.pend)
        self.nstored = fv(self.nstored)
        if self.last_end is not None:
            self.last_end = floc(self.last_end)
        if self.det_at is not None:
            self.det_at = floc(self.det_at)
        self.vals = {k: fv(v) for k, v in self.vals.items()}
        if self.verdict is not None and self.verdict[0] == "complete":
            self.verdict = ("complete", floc(self.verdict[1]))

    def map_exp(self, e, fv, floc):
        return tuple(floc(x) if isinstance(x, tuple) and x and x[0] == "B" else x for x in e)

    def symbols(self):
        out = set(self.dflt.symbols()) if self.dflt is not None else set()
        for loc in list(self.marks.values()) + ([self.verdict[1]] if self.verdict and self.verdict[0] == "complete" else []) + ([self.last_end] if self.last_end else []) + ([self.det_at] if self.det_at else []):
            for s, c in loc[1]:
                out.add(s)
        for e in self.exp.values():
            for x in e:
                if isinstance(x, tuple) and x and x[0] == "B":
                    for s, c in x[1]:
                        out.add(s)
        if self.pend is not None:
            for x in self.pend:
                if isinstance(x, tuple) and x and x[0] == "B":
                    for s, c in x[1]:
                        out.add(s)
        for v in list(self.vals.values()) + [self.nstored]:
            if v[0] == "sym":
                for s, c in v[1]:
                    if isinstance(s, str):
                        out.add(s)
        return out

    def live_cells(self):
        out = list(self.det_pending)
        # the three status-code digits stay refinable (and forms over them exact) until the code
        # field has been compared: an accumulator loop over them must not be widened before that
        v = self.vals.get("code")
        if v is not None:
            if v[0] == "cell":
                out.append(v[1])
            elif v[0] == "sym":
                out.extend(s[1] for s, c in v[1] if isinstance(s, tuple) and s[0] == "c")
        return tuple(out)

    def cells(self):
        out = list(self.dflt.cells()) if self.dflt is not None else []
        out.extend(self.det_pending)
        for v in self.vals.values():
            if v[0] == "cell":
                out.append(v[1])
            elif v[0] == "sym":
                for s, c in v[1]:
                    if isinstance(s, tuple) and s[0] == "c":
                        out.append(s[1])
        return out

    def rename_cells(self, ren):
        if self.dflt is not None:
            self.dflt.rename_cells(ren)
        self.det_pending = tuple(ren[c] for c in self.det_pending)

        def r(v):
            if v[0] == "cell":
                return ("cell", ren[v[1]], v[2], v[3], v[4])
            if v[0] == "sym":
                return ("sym", tuple(((("c", ren[s[1]], s[2]) if isinstance(s, tuple) and s[0] == "c" else s), c) for s, c in v[1]), v[2], v[3], v[4])
            return v
        self.vals = {k: r(v) for k, v in self.vals.items()}

    def describe(self, st):
        return {"root": self.root, "consumed_classes": list(self.hist[-40:]), "spec_state": self.q, "phase": self.phase,
                "lookahead": [mask_str(st.cells[c]) for c in st.tape[:8]], "eof_known": st.eof,
                "env": {k: v for k, v in st.env.items()}, "choices": st.trace[-16:]}

    def opt(self, m, st, name):
        o = self.opts.get(name, ("const", False))
        if o[0] == "const":
            return o[1]
        key = o[1]
        if key in st.env:
            return st.env[key]
        return m.concretize(st, ("env", key, True))[1] != 0

    def bad(self, m, st, cls, detail):
        st.flags["$dflt_alive"] = (self.dflt is None) or (self.dflt.q[0] != "ERR")
        m.violate(st, "spec:%s:%s" % (cls, self.phase), detail)

    # ---- positions ----------------------------------------------------------------------------
    def pos(self, st, i):
        """Location of the i-th cell of the batch being consumed (before the cursor moves)."""
        t = st.cur_tok()
        return ("B", ((t, 1),), i)

    def same_pos(self, st, a, b):
        if a == b:
            return True
        ra = st.rel_pos(a[1], a[2])
        rb = st.rel_pos(b[1], b[2])
        if ra is not None and rb is not None and ra[2] == rb[2] == 1 and ra[0] is not None and ra[0] == ra[1] and rb[0] is not None and rb[0] == rb[1]:
            return ra[0] == rb[0]
        d = sym_norm(list(a[1]) + [(s, -c) for s, c in b[1]], a[2] - b[2], 0, True)
        if d[0] == "int":
            return d[1] == 0
        r = st.rel_pos(d[1], d[2])
        if r is not None and r[0] is not None and r[0] == r[1]:
            return r[0] == 0
        return False

    # ---- the automaton -------------------------------------------------------------------------
    def arms(self, m, st):
        """Partition of the byte alphabet relevant in the current state: list of (mask, label)."""
        q = self.q[0]
        k = self.kind
        if q in ("DONE", "ERR"):
            return [(FULL, "any")]
        if q == "E0":
            first = TCHAR if k == "request" else M("H")
            return [(CR, "cr"), (LF, "lf"), (first, "first"), (other(CR, LF, first), "bad")]
        if q in ("E1", "NL1", "A1", "RS1", "L1", "W1", "V1", "C1", "SK1"):
            return [(LF, "lf"), (other(LF), "bad")]
        if q == "M1":
            return [(TCHAR, "t"), (SP, "sp"), (other(TCHAR, SP), "bad")]
        if q == "S1":
            return [(SP, "sp"), (URI, "u"), (other(SP, URI), "bad")]
        if q == "U1":
            return [(URI, "u"), (SP, "sp"), (other(URI, SP), "bad")]
        if q == "S2":
            return [(SP, "sp"), (M("H"), "h"), (other(SP, M("H")), "bad")]
        if q == "VER":
            i = self.q[1]
            want = "HTTP/1."[i] if i < 7 else None
            if want is not None:
                return [(M(want), "ok"), (other(M(want)), "bad")]
            return [(M("0"), "v0"), (M("1"), "v1"), (other(M("01")), "bad")]
        if q == "NL":
            return [(CR, "cr"), (LF, "lf"), (other(CR, LF), "bad")]
        if q == "SP1":
            return [(SP, "sp"), (other(SP), "bad")]
        if q == "MS1":
            return [(SP, "sp"), (DIGIT, "d"), (other(SP, DIGIT), "bad")]
        if q == "DG":
            return [(DIGIT, "d"), (other(DIGIT), "bad")]
        if q == "A":
            return [(SP, "sp"), (CR, "cr"), (LF, "lf"), (other(SP, CR, LF), "bad")]
        if q in ("MS2", "RS"):
            arms = [(CR, "cr"), (LF, "lf"), (REASON_OK & ~SP, "r"), (SP, "sp"), (OBS, "obs"), (other(CR, LF, REASON_OK, OBS), "bad")]
            return arms
        if q == "L":
            return [(CR, "cr"), (LF, "lf"), (TCHAR, "t"), (WS, "ws"), (NUL, "nul"), (other(CR, LF, TCHAR, WS, NUL), "bad")]
        if q == "SB":
            return [(WS, "ws"), (other(WS), "x")]
        if q == "N":
            return [(TCHAR, "t"), (COLON, "colon"), (WS, "ws"), (CR, "cr"), (LF, "lf"), (NUL, "nul"), (other(TCHAR, COLON, WS, CR, LF, NUL), "bad")]
        if q == "NW":
            return [(WS, "ws"), (COLON, "colon"), (CR, "cr"), (LF, "lf"), (NUL, "nul"), (other(WS, COLON, CR, LF, NUL), "bad")]
        if q == "W":
            return [(WS, "ws"), (VAL & ~WS, "v"), (CR, "cr"), (LF, "lf"), (NUL, "nul"), (other(VAL, CR, LF, NUL), "bad")]
        if q in ("WE", "VE"):
            return [(WS, "ws"), (other(WS), "x")]
        if q == "V":
            return [(VAL & ~WS, "v"), (WS, "ws"), (CR, "cr"), (LF, "lf"), (NUL, "nul"), (other(VAL, CR, LF, NUL), "bad")]
        if q == "SK":
            return [(CR, "cr"), (LF, "lf"), (NUL, "nul"), (other(CR, LF, NUL), "x")]
        # chunk size
        if q == "D":
            return [(HEXD, "d"), (HEXL, "l"), (HEXU, "u"), (WS, "ws"), (SEMI, "semi"), (CR, "cr"), (other(HEXD, HEXL, HEXU, WS, SEMI, CR), "bad")]
        if q == "LW":
            return [(WS, "ws"), (SEMI, "semi"), (CR, "cr"), (other(WS, SEMI, CR), "bad")]
        if q == "X":
            return [(CR, "cr"), (other(CR), "x")]
        raise Unanalysable("reference grammar: state %s" % (self.q,))

    def classify(self, m, st, cid):
        mask = st.cells[cid]
        arms = self.arms(m, st)
        hit = [(am, lab) for am, lab in arms if am & mask]
        if len(hit) == 1:
            return hit[0][1]
        choices = []
        for am, lab in hit:
            choices.append(("spec:%s" % lab, (lambda mm: (lambda s: s.refine(cid, mm)))(am)))
        raise Fork(choices, "reference grammar class")

    def err(self, kind):
        self.q = ("ERR",)
        self.verdict = ("err", kind)
        self.marks = {}
        self.pend = None

    def u8(self, m, st, cid, bits=8):
        return m.mk_cell(st, cid, TABLES.get(TABLES.ident), 8, False)

    def consume(self, m, st, cid, i):
        """One byte passes under the cursor."""
        self.nconsumed += 1
        if self.q[0] not in ("DONE", "ERR"):
            self.classify(m, st, cid)  # split along the grammar's classes first
        self.detect(m, st, cid, self.pos(st, i + 1))
        if self.dflt is not None and self.dflt.q[0] not in ("DONE", "ERR"):
            d = self.dflt
            if d.q[0] in ("VE", "WE"):
                d.resolve_lookahead_mask(st.cells[cid])
            if d.q[0] not in ("DONE", "ERR"):
                lab = d.classify(m, st, cid)
                d.pend = None
                d.step(m, st, cid, lab, DUMMY_LOC, DUMMY_LOC)
                d.pend = None
                d.vals = {}
                d.exp = {}
        if self.q[0] in ("DONE", "ERR"):
            # bytes consumed after the reference has decided: only legal on the way to reporting
            # that same decision; recorded and checked at return
            self.flags["after_verdict"] = True
            return
        if self.pend is not None and self.q[0] not in ("VE", "WE"):
            self.bad(m, st, "order", "a header line was complete but not stored before the parser moved on")
        lab = self.classify(m, st, cid)
        self.hist = self.hist[-60:] + ("%s:%s" % (self.q[0], lab),)
        self.step(m, st, cid, lab, self.pos(st, i), self.pos(st, i + 1))
        if self.kind != "chunk" and self.q[0] != "ERR":
            # C05: NUL / bare CR inside a head that is still acceptable
            mask = st.cells[cid]
            if mask & NUL:
                self.flags["nul"] = True
            if self.flags.get("prev_cr") and (mask & ~LF & FULL):
                self.flags["bare_cr"] = True
            if mask & CR:
                if mask & ~CR & FULL:
                    raise Unanalysable("reference grammar: CR not separated from other bytes in state %s" % (self.q,))
                self.flags["prev_cr"] = True
            else:
                self.flags.pop("prev_cr", None)

    def resolve_lookahead_mask(self, mask):
        """Default reference only (no fold option there): nothing to resolve."""
        return

    def detect(self, m, st, cid, after, replay=False, nofork=False):
        """C03 detector.  request/response: skip leading empty lines, then the start line up to its
        LF, then fire at the first line that is exactly LF or CR LF (leading SP/HTAB disregarded
        only with allow_space_before_first_header_name while no header is stored).  chunk: fire at
        the first CR LF."""
        d = self.det
        if d[0] in ("fired", "lost"):
            return
        if not replay and (self.det_pending or self.q[0] == "ERR"):
            # the reference has rejected: the framing question only arises if the implementation
            # nevertheless returns Complete/Partial; keep the byte and classify it then
            if len(self.det_pending) >= 24:
                self.det = ("lost",)
                self.det_pending = ()
            else:
                self.det_pending = self.det_pending + (cid,)
            return
        mask = st.cells[cid]
        is_lf = not (mask & ~LF & FULL)
        no_lf = not (mask & LF)
        is_cr = not (mask & ~CR & FULL)
        no_cr = not (mask & CR)
        if not ((is_lf or no_lf) and (is_cr or no_cr)) and nofork:
            # decide with what is known, if that is enough in the detector's current state
            st_ = d[0]
            need_lf = st_ in ("c1", "sl", "line0", "cr0", "in")
            need_cr = st_ in ("c0", "c1", "start", "line0", "cr0")
            if (need_lf and not (is_lf or no_lf)) or (need_cr and not (is_cr or no_cr)):
                self.det = ("lost",)
                return
        elif not ((is_lf or no_lf) and (is_cr or no_cr)):
            # the detector needs to know: split the byte into CR / LF / anything else
            parts = [("det:cr", CR), ("det:lf", LF), ("det:other", other(CR, LF))]
            raise Fork([(lab, (lambda mm: (lambda s_: s_.refine(cid, mm)))(pm)) for lab, pm in parts if mask & pm], "framing detector class")
        if d[0] == "c0":  # chunk: looking for CR LF
            self.det = ("c1",) if is_cr else ("c0",)
            return
        if d[0] == "c1":
            if is_lf:
                self.det, self.det_at = ("fired",), after
            else:
                self.det = ("c1",) if is_cr else ("c0",)
            return
        if d[0] == "start":  # leading empty lines
            if is_lf or is_cr:
                return
            self.det = ("sl",)
            return
        if d[0] == "sl":  # inside the start line
            if is_lf:
                self.det = ("line0",)
            return
        if d[0] == "line0":  # at a line start
            if is_lf:
                self.det, self.det_at = ("fired",), after
            elif is_cr:
                self.det = ("cr0",)
            else:
                is_ws = not (mask & ~WS & FULL)
                no_ws = not (mask & WS)
                if not (is_ws or no_ws):
                    self.det = ("lost",)
                elif is_ws and self.opt_peek(st, "fold") is not False:
                    # with obsolete line folding a line starting with SP/HTAB may continue the
                    # previous header: deciding that needs the grammar, not this detector
                    self.det = ("lost",)
                elif is_ws and self.opt_peek(st, "sb") is True and self.nstored[0] == "int" and self.nstored[1] == 0:
                    pass  # disregarded leading whitespace
                elif is_ws and self.opt_peek(st, "sb") is None:
                    self.det = ("lost",)
                else:
                    self.det = ("in",)
            return
        if d[0] == "cr0":
            if is_lf:
                self.det, self.det_at = ("fired",), after
            else:
                self.det = ("cr0",) if is_cr else ("in",)
            return
        if d[0] == "in":
            if is_lf:
                self.det = ("line0",)
            return

    def opt_peek(self, st, name):
        o = self.opts.get(name, ("const", False))
        if o[0] == "const":
            return o[1]
        return st.env.get(o[1])

    # the transition function ----------------------------------------------------------------------
    def step(self, m, st, cid, lab, here, after):
        q = self.q[0]
        k = self.kind
        if q == "E0":
            if lab == "cr":
                self.q = ("E1",)
            elif lab == "lf":
                pass
            elif lab == "first":
                if k == "request":
                    self.marks["method_s"] = here
                    self.q = ("M1",)
                else:
                    self.q = ("VER", 1)
            else:
                self.err("Token" if k == "request" else "Version")
            return
        if q == "E1":
            if lab == "lf":
                self.q = ("E0",)
            else:
                self.err("NewLine")
            return
        # ---- request line
        if q == "M1":
            if lab == "t":
                return
            if lab == "sp":
                self.exp["method"] = ("slice", self.marks.pop("method_s"), here)
                self.q = ("S1",)
                return
            self.err("Token")
            return
        if q == "S1":
            if lab == "sp":
                if self.opt(m, st, "ms_req"):
                    return
                self.err("Token")
                return
            if lab == "u":
                self.marks["path_s"] = here
                self.q = ("U1",)
                return
            self.err("Token")
            return
        if q == "U1":
            if lab == "u":
                return
            if lab == "sp":
                self.exp["path"] = ("utf8slice", self.marks.pop("path_s"), here)
                self.q = ("S2",)
                if self.flags.pop("utf8_bad", False):
                    self.err("Token")
                return
            self.err("Token")
            return
        if q == "S2":
            if lab == "sp":
                if self.opt(m, st, "ms_req"):
                    return
                self.err("Version")
                return
            if lab == "h":
                self.q = ("VER", 1)
                return
            self.err("Version")
            return
        if q == "VER":
            i = self.q[1]
            if i < 7:
                if lab == "ok":
                    self.q = ("VER", i + 1)
                else:
                    self.err("Version")
                return
            if lab in ("v0", "v1"):
                self.vals["version"] = mk_int(0 if lab == "v0" else 1, 8)
                self.exp["version"] = ("val", "version")
                self.q = ("NL",) if k == "request" else ("SP1",)
            else:
                self.err("Version")
            return
        if q == "NL":
            if lab == "cr":
                self.q = ("NL1",)
            elif lab == "lf":
                self.start_headers(after)
            else:
                self.err("NewLine")
            return
        if q == "NL1":
            if lab == "lf":
                self.start_headers(after)
            else:
                self.err("NewLine")
            return
        # ---- status line
        if q == "SP1":
            if lab == "sp":
                self.q = ("MS1",) if self.opt(m, st, "ms_resp") else ("DG", 0)
            else:
                self.err("Version")
            return
        if q == "MS1":
            if lab == "sp":
                return
            if lab == "d":
                self.digit(m, st, cid, 0)
                return
            self.err("Status")
            return
        if q == "DG":
            if lab == "d":
                self.digit(m, st, cid, self.q[1])
            else:
                self.err("Status")
            return
        if q == "A":
            if lab == "sp":
                self.marks["reason_s"] = after
                self.flags["obs"] = False
                self.q = ("MS2",) if self.opt(m, st, "ms_resp") else ("RS",)
            elif lab == "cr":
                self.q = ("A1",)
            elif lab == "lf":
                self.exp["reason"] = ("empty",)
                self.start_headers(after)
            else:
                self.err("Status")
            return
        if q == "A1":
            if lab == "lf":
                self.exp["reason"] = ("empty",)
                self.start_headers(after)
            else:
                self.err("Status")
            return
        if q in ("MS2", "RS"):
            if q == "MS2":
                if lab == "sp":
                    self.marks["reason_s"] = after
                    return
                self.q = ("RS",)
            if lab in ("r", "sp"):
                return
            if lab == "obs":
                self.flags["obs"] = True
                return
            if lab == "cr":
                self.marks["reason_e"] = here
                self.q = ("RS1",)
                return
            if lab == "lf":
                self.marks["reason_e"] = here
                self.finish_reason()
                self.start_headers(after)
                return
            self.err("Status")
            return
        if q == "RS1":
            if lab == "lf":
                self.finish_reason()
                self.start_headers(after)
            else:
                self.err("Status")
            return
        # ---- header block
        if q == "L":
            if lab == "cr":
                self.q = ("L1",)
            elif lab == "lf":
                self.complete(after)
            elif lab == "t":
                self.marks["name_s"] = here
                self.q = ("N",)
            elif lab == "ws" and self.opt(m, st, "sb") and self.none_stored(m, st):
                self.q = ("SB",)
            else:
                self.invalid(m, st, "HeaderName", lab)
            return
        if q == "L1":
            if lab == "lf":
                self.complete(after)
            else:
                self.err("NewLine")
            return
        if q == "SB":
            # leading whitespace before the first header is consumed while the next byte is WS;
            # the first non-WS byte is examined as a line start
            if lab == "ws":
                return
            self.q = ("L",)
            lab2 = self.classify(m, st, cid)
            self.step(m, st, cid, lab2, here, after)
            return
        if q == "N":
            if lab == "t":
                return
            if lab == "colon":
                self.marks["name_e"] = here
                self.marks["val_s"] = after
                self.flags["started"] = False
                self.q = ("W",)
                return
            if lab == "ws" and self.opt(m, st, "sa"):
                self.marks["name_e"] = here
                self.q = ("NW",)
                return
            self.invalid(m, st, "HeaderName", lab)
            return
        if q == "NW":
            if lab == "ws":
                return
            if lab == "colon":
                self.marks["val_s"] = after
                self.flags["started"] = False
                self.q = ("W",)
                return
            self.invalid(m, st, "HeaderName", lab)
            return
        if q == "W":
            if lab == "ws":
                self.marks["val_s"] = after
                return
            if lab == "v":
                self.marks["val_s"] = here
                self.flags["started"] = True
                self.q = ("V",)
                return
            if lab == "cr":
                self.marks["val_e"] = here
                self.q = ("W1",)
                return
            if lab == "lf":
                self.marks["val_e"] = here
                self.line_end(m, st, "WE")
                return
            self.invalid(m, st, "HeaderValue", lab)
            return
        if q == "W1":
            if lab == "lf":
                self.line_end(m, st, "WE")
            else:
                self.err("HeaderValue")
            return
        if q == "V":
            if lab in ("v", "ws"):
                return
            if lab == "cr":
                self.marks["val_e"] = here
                self.q = ("V1",)
                return
            if lab == "lf":
                self.marks["val_e"] = here
                self.line_end(m, st, "VE")
                return
            self.invalid(m, st, "HeaderValue", lab)
            return
        if q == "V1":
            if lab == "lf":
                self.line_end(m, st, "VE")
            else:
                self.err("HeaderValue")
            return
        if q in ("WE", "VE"):
            # fold look-ahead state reached by consumption: the next byte decides
            if lab == "ws":
                if q == "WE":
                    self.marks["val_s"] = after
                    self.q = ("W",)
                else:
                    self.q = ("V",)
                return
            # not a continuation: the line was complete; it must have been stored already
            self.store_header(m, st)
            if self.pend is not None:
                self.bad(m, st, "order", "a header line was complete but not stored before the parser moved on")
            self.to_line_start()
            lab2 = self.classify(m, st, cid)
            self.step(m, st, cid, lab2, here, after)
            return
        if q == "SK":
            if lab == "cr":
                self.q = ("SK1", self.q[1])
            elif lab == "lf":
                self.to_line_start()
            elif lab == "nul":
                self.err(self.q[1])
            return
        if q == "SK1":
            if lab == "lf":
                self.to_line_start()
            else:
                self.err(self.q[1])
            return
        # ---- chunk size
        if q == "D":
            n = self.q[1]
            if lab in ("d", "l", "u"):
                if n >= 16:
                    self.err("InvalidChunkSize")
                    return
                base = {"d": 48, "l": 87, "u": 55}[lab]
                b = self.u8(m, st, cid)
                dv = m.cast_int(st, m.binop(st, "Sub", b, mk_int(base, 8)), 64, False)
                cur = self.vals.get("size", mk_int(0, 64))
                self.vals["size"] = m.binop(st, "Add", m.binop(st, "Mul", cur, mk_int(16, 64)), dv)
                self.q = ("D", n + 1)
                return
            if n == 0:
                self.err("InvalidChunkSize")
                return
            if lab == "ws":
                self.q = ("LW",)
            elif lab == "semi":
                self.q = ("X",)
            elif lab == "cr":
                self.q = ("C1",)
            else:
                self.err("InvalidChunkSize")
            return
        if q == "LW":
            if lab == "ws":
                return
            if lab == "semi":
                self.q = ("X",)
            elif lab == "cr":
                self.q = ("C1",)
            else:
                self.err("InvalidChunkSize")
            return
        if q == "X":
            if lab == "cr":
                self.q = ("C1",)
            return
        if q == "C1":
            if lab == "lf":
                self.exp["size"] = ("val", "size")
                self.complete(after)
            else:
                self.err("InvalidChunkSize")
            return
        raise Unanalysable("reference grammar: no transition from %s" % (self.q,))

    # helpers ------------------------------------------------------------------------------------------
    def digit(self, m, st, cid, idx):
        if self.lite:
            self.q = ("A",) if idx == 2 else ("DG", idx + 1)
            return
        b = self.u8(m, st, cid)
        d = m.cast_int(st, m.binop(st, "Sub", b, mk_int(48, 8)), 16, False)
        w = [100, 10, 1][idx]
        term = m.binop(st, "Mul", d, mk_int(w, 16))
        self.vals["code"] = term if idx == 0 else m.binop(st, "Add", self.vals["code"], term)
        if idx == 2:
            self.exp["code"] = ("val", "code")
            self.q = ("A",)
        else:
            self.q = ("DG", idx + 1)

    def finish_reason(self):
        if self.flags.get("obs"):
            self.exp["reason"] = ("empty",)
        else:
            self.exp["reason"] = ("slice", self.marks["reason_s"], self.marks["reason_e"])

    def start_headers(self, after):
        self.phase = "headers"
        self.marks = {}
        self.flags.pop("obs", None)
        self.q = ("L",)

    def to_line_start(self):
        """Back at a line start: positions of the previous line are no longer needed."""
        self.marks = {}
        self.flags.pop("started", None)
        self.q = ("L",)

    def complete(self, after):
        self.q = ("DONE",)
        self.verdict = ("complete", after)
        self.marks = {}

    def none_stored(self, m, st):
        v = self.nstored
        if v[0] == "int":
            return v[1] == 0
        lo, hi = m.sym_bounds(st, v)
        if lo is not None and lo >= 1:
            return False
        if hi == 0:
            return True
        raise Unanalysable("reference grammar: number of stored headers undetermined")

    def invalid(self, m, st, kind, lab):
        if not self.opt(m, st, "ign"):
            self.err(kind)
            return
        # the offending byte itself is re-examined by the skipper
        self.marks = {}
        self.flags.pop("started", None)
        if lab == "cr":
            self.q = ("SK1", kind)
        elif lab == "lf":
            self.to_line_start()
        elif lab == "nul":
            self.err(kind)
        else:
            self.q = ("SK", kind)

    def line_end(self, m, st, nxt):
        if self.opt(m, st, "fold"):
            self.q = (nxt,)
        else:
            self.store_header(m, st)
            self.to_line_start()

    def store_header(self, m, st):
        self.pend = (self.marks["name_s"], self.marks["name_e"], self.marks["val_s"], self.marks["val_e"], self.flags.get("started", False))

    def resolve_lookahead(self, m, st):
        """In the fold look-ahead states the decision depends on the next, not yet consumed byte."""
        if self.q[0] in ("WE", "VE"):
            if not st.tape or (st.run is not None and st.ahead[1] == 0):
                return False
            c = st.tape[0]
            mask = st.cells[c]
            if mask & WS and mask & ~WS & FULL:
                raise Fork([("la:ws", lambda s: s.refine(c, WS)), ("la:other", lambda s: s.refine(c, other(WS)))], "fold look-ahead")
            if mask & WS:
                return False
            self.store_header(m, st)
            self.to_line_start()
        return True

    # ---- events from the implementation ------------------------------------------------------------
    def commit(self, m, st, keep):
        pass

    def field_name(self, st, path):
        names = st.flags.get("self_fields")
        if names and path and isinstance(path[0], int) and path[0] < len(names):
            return names[path[0]]
        return None

    def heap_store(self, m, st, name, path, v):
        if name != "SELF":
            return
        f = self.field_name(st, path)
        if f is None:
            self.bad(m, st, "field", "store to the whole Request/Response value")
        if f == "headers":
            self.flags["headers_assigned"] = True
            return
        if self.q[0] in ("DONE", "ERR") and self.exp.get(f) is None:
            # the reference has already decided: the verdict comparison at return reports it
            self.got[f] = True
            return
        if v[0] == "enum" and v[1] == 1:
            inner = v[2][0]
        elif v[0] == "enum" and v[1] == 0:
            self.bad(m, st, "field", "field %s reset to None" % f)
            return
        else:
            inner = v
        e = self.exp.get(f)
        phase_now, self.phase = self.phase, "start-line"
        try:
            self.store_field(m, st, f, e, inner)
        finally:
            self.phase = phase_now

    def store_field(self, m, st, f, e, inner):
        if e is None:
            self.bad(m, st, "field", "field %s stored before the reference has delimited it (state %s)" % (f, self.q[0]))
        if f in self.got:
            self.bad(m, st, "field", "field %s stored twice" % f)
        self.check_zero_copy(m, st, f, inner)
        self.check_hygiene(m, st, f, inner)
        self.check_value(m, st, f, e, inner)
        self.got[f] = True
        self.exp[f] = ("done",)
        if e[0] == "val":
            self.vals.pop(e[1], None)

    def check_zero_copy(self, m, st, f, v):
        """C04 on the slice the implementation hands out: inside the buffer, after the previous
        one, not beyond what has been consumed."""
        if v[0] != "fat":
            return
        if v[2][0] == "int" and v[2][1] == 0:
            return  # zero-length values may live anywhere
        if v[1][0] != "B":
            m.violate(st, "zero-copy:not-in-buffer", "%s is a non-empty slice that does not point into the caller's buffer (%s)" % (
                f, "static data" if v[1][0] in ("A", "K", "S") else v[1][0]), fatal=False)
            return
        ln = v[2]
        if v[3] is not None and v[3][0] == "trim" and v[3][1] in st.rsyms:
            ln = st.rsyms[v[3][1]][2]  # a trimmed slice ends no later than the region it was trimmed from
        t, c = sym_of(ln)
        end = ("B",) + self.loc_add(v[1], t, c)
        r = st.rel_pos(end[1], end[2])
        if r is None or r[2] != 1 or r[1] is None or r[1] > 0:
            m.violate(st, "zero-copy:beyond-consumed", "%s may extend beyond the bytes consumed so far" % f, fatal=False)
        if self.last_end is not None:
            d = sym_norm(list(v[1][1]) + [(s_, -c_) for s_, c_ in self.last_end[1]], v[1][2] - self.last_end[2], 0, True)
            ok = d[0] == "int" and d[1] >= 0
            if d[0] != "int":
                r2 = st.rel_pos(d[1], d[2])
                ok = r2 is not None and r2[0] is not None and r2[0] >= 0
            if not ok:
                m.violate(st, "zero-copy:order", "%s starts before the end of the previously reported slice" % f, fatal=False)
        self.last_end = end

    def check_hygiene(self, m, st, f, v, fold=False):
        """C05 on the value the implementation hands out (its own region summary), not on the
        reference's idea of the field."""
        cls = {"method": TCHAR, "path": URI, "reason": REASON_OK, "header name": TCHAR, "header value": VAL}.get(f)
        if cls is None or v[0] != "fat":
            return
        if f == "header value" and fold:
            cls = cls | CR | LF
        summ = v[3]
        empty_ok = f in ("reason", "header value")
        if v[2][0] == "int" and v[2][1] == 0:
            if not empty_ok:
                m.violate(st, "hygiene:%s" % f.replace(" ", "-"), "%s may be empty" % f, fatal=False)
            return
        inner = summ[2] if summ is not None and summ[0] == "trim" else summ
        if inner is None or inner[0] not in ("reg", "const", "empty"):
            m.violate(st, "hygiene:%s" % f.replace(" ", "-"), "%s: content of the region is not known to the analysis" % f, fatal=False)
            return
        if inner[0] == "empty":
            if not empty_ok:
                m.violate(st, "hygiene:%s" % f.replace(" ", "-"), "%s may be empty" % f, fatal=False)
            return
        content = inner[1]
        if content & ~cls & FULL:
            m.violate(st, "hygiene:%s" % f.replace(" ", "-"), "%s may contain %s" % (f, mask_str(content & ~cls & FULL)), fatal=False)
        if not empty_ok and inner[0] == "reg" and inner[3] is not True:
            m.violate(st, "hygiene:%s" % f.replace(" ", "-"), "%s may be empty" % f, fatal=False)
        if f == "header value":
            first = inner[2] if inner[0] == "reg" else FULL
            if first & WS:
                m.violate(st, "hygiene:header-value", "header value may start with SP/HTAB", fatal=False)
            if summ[0] != "trim":
                m.violate(st, "hygiene:header-value", "header value is not trimmed at its end", fatal=False)
            else:
                r = st.rsyms.get(summ[1])
                if r is None or (r[1] & WS):
                    m.violate(st, "hygiene:header-value", "header value may end with SP/HTAB", fatal=False)

    def check_value(self, m, st, f, e, v):
        if e[0] == "val":
            want = self.vals[e[1]]
            if not self.same_value(m, st, want, v):
                self.bad(m, st, "field", "%s: stored value %s differs from the reference value %s" % (f, m.show_sym(v) if v[0] in ("int", "sym") else v[0], m.show_sym(want) if want[0] in ("int", "sym") else want[0]))
            return
        if e[0] == "empty":
            if v[0] != "fat" or not (v[2][0] == "int" and v[2][1] == 0):
                self.bad(m, st, "field", "%s: expected the empty string, got a slice of length %s" % (f, m.show_sym(v[2]) if v[0] == "fat" else v[0]))
            return
        if e[0] in ("slice", "utf8slice"):
            self.check_slice(m, st, f, e[1], e[2], v)
            return
        raise Unanalysable("reference expectation %s" % (e,))

    def same_value(self, m, st, a, b):
        if a == b:
            return True
        if a[0] in ("int", "sym", "cell") and b[0] in ("int", "sym", "cell"):
            if (a[0] == "int") != (b[0] == "int") and False:
                return False
            d = sym_add(a, b, -1, 0, True)
            if d[0] == "int":
                return d[1] == 0
            lo, hi = m.sym_bounds(st, d)
            if lo is not None and lo == hi:
                return lo == 0
            # small joint domain: enumerate
            cellterms = [s for s, c in d[1] if isinstance(s, tuple) and s[0] == "c"]
            if len(cellterms) == len(d[1]):
                cids = sorted(set(s[1] for s in cellterms))
                doms = [mask_vals(st.cells[c]) for c in cids]
                n = 1
                for dm in doms:
                    n *= len(dm)
                if n <= 4096:
                    import itertools
                    for combo in itertools.product(*doms):
                        env = dict(zip(cids, combo))
                        tot = d[2]
                        for s, c in d[1]:
                            tot += c * TABLES.get(s[2])[env[s[1]]]
                        if tot != 0:
                            return False
                    return True
        return False

    def check_slice(self, m, st, f, s_loc, e_loc, v, trim=False):
        if v[0] == "fat" and v[1][0] != "B":
            return  # not a slice of the buffer: C04's zero-copy rule has reported it; content cannot be compared here
        if v[0] != "fat":
            self.bad(m, st, "field", "%s is not a slice (%s)" % (f, v[0]))
        if not self.same_pos(st, v[1], s_loc):
            self.bad(m, st, "field", "%s starts at %s, the reference field starts at %s" % (f, self.show_loc(st, v[1]), self.show_loc(st, s_loc)))
        ln = v[2]
        t, c = sym_of(ln)
        end = ("B",) + self.loc_add(v[1], t, c)
        if not self.same_pos(st, end, e_loc):
            self.bad(m, st, "field", "%s ends at %s, the reference field ends at %s" % (f, self.show_loc(st, end), self.show_loc(st, e_loc)))

    def loc_add(self, loc, t, c):
        d = dict(loc[1])
        for s, co in t.items():
            d[s] = d.get(s, 0) + co
        from .absm import term_key
        return (tuple(sorted(((s, co) for s, co in d.items() if co), key=term_key)), loc[2] + c)

    def show_loc(self, st, loc):
        r = st.rel_pos(loc[1], loc[2])
        if r is not None and r[0] is not None and r[0] == r[1] and r[2] == 1:
            return "cursor%+d" % r[0]
        return "+".join(("%s" % s if c == 1 else "%d*%s" % (c, s)) for s, c in loc[1]) + ("%+d" % loc[2] if loc[2] else "")

    def yield_slot(self, m, st, item):
        if self.q[0] in ("DONE", "ERR"):
            self.slotq = item[1]
            return
        self.resolve_lookahead(m, st)
        if self.pend is None:
            self.bad(m, st, "order", "a header slot is taken although no header line is complete (reference state %s)" % self.q[0])
        idx = item[1][2]
        if not self.same_value(m, st, idx, self.nstored):
            self.bad(m, st, "slot", "header goes to slot %s but %s header(s) were stored so far" % (m.show_sym(idx), m.show_sym(self.nstored)))
        self.slotq = item[1]

    def slots_exhausted(self, m, st, it):
        if self.q[0] in ("DONE", "ERR"):
            return
        self.resolve_lookahead(m, st)
        if self.pend is None:
            self.bad(m, st, "order", "header capacity tested although no header line is complete (reference state %s)" % self.q[0])
        self.flags["exhausted"] = True

    def slot_store(self, m, st, loc, v):
        if self.q[0] in ("DONE", "ERR") and self.pend is None:
            self.slotq = None
            self.nstored = sym_add(self.nstored, mk_int(1, 64))
            return
        if self.pend is None:
            self.bad(m, st, "slot", "store to a header slot without a completed header line")
        if self.slotq is None or loc[:3] != self.slotq[:3]:
            self.bad(m, st, "slot", "store to a header slot other than the one just handed out")
        if loc[3]:
            self.bad(m, st, "slot", "partial store into a header slot")
        # unwrap MaybeUninit<Header> / ManuallyDrop
        h = v
        guard = 0
        while h[0] in ("union", "agg") and guard < 4:
            if h[0] == "union":
                h = h[2]
            elif h[0] == "agg" and len(h[1]) == 1:
                h = h[1][0]
            else:
                break
            guard += 1
        if h[0] != "agg" or len(h[1]) != 2:
            self.bad(m, st, "slot", "header slot receives something that is not a Header")
        name, value = h[1]
        self.check_zero_copy(m, st, "header name", name)
        self.check_zero_copy(m, st, "header value", value)
        self.check_hygiene(m, st, "header name", name)
        self.check_hygiene(m, st, "header value", value, fold=self.opt(m, st, "fold"))
        ns, ne, vs, ve, started = self.pend
        self.check_slice(m, st, "header name", ns, ne, name)
        if not started:
            if value[0] != "fat" or not (value[2][0] == "int" and value[2][1] == 0):
                self.bad(m, st, "field", "header value: expected empty, got length %s" % (m.show_sym(value[2]) if value[0] == "fat" else value[0]))
        else:
            self.check_trimmed(m, st, vs, ve, value)
        self.pend = None
        self.slotq = None
        self.nstored = sym_add(self.nstored, mk_int(1, 64))

    def check_trimmed(self, m, st, vs, ve, value):
        if value[0] != "fat" or value[1][0] != "B":
            self.bad(m, st, "field", "header value is not a slice of the input buffer")
        if not self.same_pos(st, value[1], vs):
            self.bad(m, st, "field", "header value starts at %s, the reference value starts at %s" % (self.show_loc(st, value[1]), self.show_loc(st, vs)))
        summ = value[3]
        if summ is None or summ[0] != "trim":
            # untrimmed: acceptable only if the region cannot end in whitespace -- not provable here
            self.bad(m, st, "field", "header value is not the trailing-whitespace trim of the value region")
        r = st.rsyms.get(summ[1])
        if r is None:
            raise Unanalysable("trim symbol lost")
        rloc, P, rlen = r
        if P != VISIBLE_STOP:
            self.bad(m, st, "field", "header value trim stops at %s, expected to strip exactly SP/HTAB (and line breaks of trailing folds)" % mask_str(P))
        t, c = sym_of(rlen)
        end = ("B",) + self.loc_add(rloc, t, c)
        if not self.same_pos(st, rloc, vs) or not self.same_pos(st, end, ve):
            self.bad(m, st, "field", "header value is trimmed from region %s..%s, the reference value region is %s..%s" % (
                self.show_loc(st, rloc), self.show_loc(st, end), self.show_loc(st, vs), self.show_loc(st, ve)))

    def on_str(self, m, st, s, ok):
        # the one check the statement defers: UTF-8 validity of the request target, judged at its
        # terminating SP
        if self.kind == "request" and not ok and "path" not in self.got:
            if self.q[0] == "S2" and "path" in self.exp:
                self.err("Token")
            elif self.q[0] == "U1":
                # validated before its terminating SP was consumed: judged when the SP arrives
                self.flags["utf8_bad"] = True

    def at_loop_head(self, m, st):
        """Bytes consumed after the reference rejected are fed to the framing detector here, when
        the implementation's own branches have refined them.  A few of them may be split further
        (CR / LF / other); beyond that budget the detector gives up ('lost') instead of forking."""
        if not self.det_pending:
            return
        sim = self.clone()
        pend = sim.det_pending
        sim.det_pending = ()
        n = len(pend)
        budget = 4 - self.flags.get("det_forks", 0)
        for i, c in enumerate(pend):
            if sim.det[0] in ("fired", "lost"):
                break
            t = st.token_at(n - 1 - i)
            if t is None:
                sim.det = ("lost",)
                break
            try:
                sim.detect(m, st, c, ("B", ((t, 1),), 0), replay=True, nofork=(budget <= 0))
            except Fork as f:
                # nothing of self has been changed: the refined states redo this step
                choices = []
                for lab, ref in f.choices:
                    def mk(ref_):
                        def g(s_):
                            r = ref_(s_)
                            if s_.mon is not None:
                                s_.mon.flags["det_forks"] = s_.mon.flags.get("det_forks", 0) + 1
                            return r
                        return g
                    choices.append((lab, mk(ref)))
                raise Fork(choices, f.why)
        self.det, self.det_at, self.det_pending = sim.det, sim.det_at, ()

    # ---- verdict at return ------------------------------------------------------------------------
    def finish(self, m, st):
        rv = st.done
        if st.run is not None:
            # the implementation has measured a run of look-ahead bytes it did not consume: the
            # reference is fed the bytes in front of the run, then the run is unfolded (ends here /
            # one more byte of its class) until the reference's control state repeats
            sim = self.clone()
            k = 0
            idx = st.ahead[1]
            while sim.q[0] not in ("DONE", "ERR") and k < idx:
                cid = st.tape[k]
                if sim.pend is not None and sim.q[0] not in ("VE", "WE"):
                    break
                lab = sim.classify(m, st, cid)
                sim.step(m, st, cid, lab, ("B", ((st.cur_tok(), 1),), k), ("B", ((st.cur_tok(), 1),), k + 1))
                k += 1
            if k == idx and sim.q[0] not in ("DONE", "ERR"):
                key = (sim.q, sim.verdict, tuple(sorted(sim.flags.items())), sim.pend is not None)
                memo = st.flags.get("$runfin", ())
                if key in memo:
                    return  # the same reference state with a longer run: already covered
                st.flags["$runfin"] = memo + (key,)
                m.unfold_run(st)
            # otherwise the reference has its verdict from the bytes in front of the run
        kind, payload = decode_result(m, st, rv, self.kind)
        # feed the look-ahead the implementation has seen but not consumed
        sim = self.clone()
        k = 0
        ntape = len(st.tape) if st.run is None else st.ahead[1]
        while sim.q[0] not in ("DONE", "ERR") and k < ntape:
            cid = st.tape[k]
            if sim.pend is not None and sim.q[0] not in ("VE", "WE"):
                break
            lab = sim.classify(m, st, cid)
            base = k
            sim.step(m, st, cid, lab, ("B", ((st.cur_tok(), 1),), base), ("B", ((st.cur_tok(), 1),), base + 1))
            k += 1
        sv = sim.verdict
        if sim.q[0] in ("VE", "WE") and st.eof and not st.tape[k:]:
            sv = None
        if sv is None and sim.pend is not None and sim.q[0] == "L" and self.flags.get("exhausted"):
            sv = ("err", "TooManyHeaders")
        elif sv is None and self.flags.get("exhausted") and self.pend is not None:
            sv = ("err", "TooManyHeaders")
        if sv is None:
            if not (st.eof and k >= len(st.tape)):
                # the reference still needs input the implementation has not looked at
                if kind != "partial":
                    self.bad(m, st, "verdict", "implementation returned %s while the reference still accepts the input so far" % show_verdict(kind, payload))
                else:
                    self.bad(m, st, "partial", "Partial returned although unread input may remain")
            want = "partial"
        else:
            want = sv[0]
        self.check_framing(m, st, kind, payload)
        if kind == "partial" and not st.eof:
            # bytes the implementation has looked at without consuming them were fed to the reference
            # above; bytes it has not looked at at all cannot have been judged by anybody
            m.violate(st, "partial-with-unread-input", "Partial returned while the end of the buffer has not been observed", fatal=False)
        self.check_headers_field(m, st, kind, payload)
        if kind == "partial":
            if want == "err":
                # deferred checks allowed by C11: UTF-8 validity of the target, header capacity
                self.bad(m, st, "partial", "Partial returned although the input can no longer become valid: reference says Err(%s)" % sv[1])
            if want == "complete":
                self.bad(m, st, "verdict", "Partial returned although the head is complete in the buffer")
            self.check_partial_fields(m, st)
            return
        if kind == "err":
            if want == "partial":
                self.bad(m, st, "verdict", "implementation returned Err(%s) while the reference still accepts the input so far" % payload)
            if want != "err":
                self.bad(m, st, "verdict", "implementation returned Err(%s), reference says %s" % (payload, want if want != "complete" else "Complete"))
            if sv[1] != payload:
                self.bad(m, st, "errkind", "implementation returned Err(%s), reference classifies the first offending byte as %s" % (payload, sv[1]))
            return
        # complete
        if self.flags.get("nul"):
            m.violate(st, "hygiene:nul", "Complete although a NUL byte may have been consumed")
        if self.flags.get("bare_cr"):
            m.violate(st, "hygiene:bare-cr", "Complete although a CR not followed by LF may have been consumed")
        if "SELF" in st.heap and st.heap["SELF"][0] == "agg":
            names = st.flags.get("self_fields", ())
            for i, v in enumerate(st.heap["SELF"][1]):
                if v[0] == "hist":
                    m.violate(st, "history:field-not-assigned", "Complete but field %s still holds the value of an earlier call" % (names[i] if i < len(names) else i))
        if want != "complete":
            self.bad(m, st, "verdict", "implementation returned Complete, reference says %s" % (("Err(%s)" % sv[1]) if want == "err" else "Partial"))
        n = payload["n"]
        pb = m.p.ptr_bytes * 8
        nloc = sv[1]
        nwant = sym_norm(list(nloc[1]) + [("B", -1)], nloc[2], pb, False)
        if not self.same_value(m, st, n, nwant):
            # compare as positions
            t, c = sym_of(n)
            got = ("B",) + self.loc_add(("B", (("B", 1),), 0), t, c)
            if not self.same_pos(st, got, nloc):
                self.bad(m, st, "offset", "Complete(n) with n = %s, the reference head ends at %s" % (m.show_sym(n), self.show_loc(st, nloc)))
        for f, e in sim.exp.items():
            if f not in self.got and e != ("done",):
                if f == "size":
                    if not self.same_value(m, st, payload.get("size"), sim.vals["size"]):
                        self.bad(m, st, "field", "chunk size value differs from the value of the digits")
                    continue
                self.bad(m, st, "field", "Complete but field %s was never stored" % f)
        if self.kind in ("request", "response", "headers"):
            self.check_headers_result(m, st, payload, sim)

    def check_partial_fields(self, m, st):
        pass

    def check_framing(self, m, st, kind, payload):
        """C03 by the independent detector: Complete(n) exactly at the first empty line (chunk: first
        CR LF); no Partial when it is already in the buffer."""
        det, at = self.det, self.det_at
        if kind == "err":
            return
        sim = self.clone()
        if sim.det_pending:
            # deferred bytes: positions are counted back from the cursor
            pend = sim.det_pending
            sim.det_pending = ()
            n = len(pend)
            for i, c in enumerate(pend):
                if sim.det[0] in ("fired", "lost"):
                    break
                back = n - 1 - i
                t = st.token_at(back)
                if t is None:
                    sim.det = ("lost",)
                    break
                sim.detect(m, st, c, ("B", ((t, 1),), 0), replay=True)
        # run the detector over the look-ahead the implementation has seen but not consumed
        k = 0
        ntape = len(st.tape) if st.run is None else st.ahead[1]
        while sim.det[0] not in ("fired", "lost") and k < ntape:
            sim.detect(m, st, st.tape[k], ("B", ((st.cur_tok(), 1),), k + 1), replay=True)
            k += 1
        if st.run is not None and sim.det[0] not in ("fired", "lost"):
            sim.det = ("lost",)  # the detector cannot see through an unconsumed measured run
        det, at = sim.det, sim.det_at
        if det[0] == "lost":
            return
        if kind == "complete":
            if det[0] != "fired":
                m.violate(st, "framing:complete-without-empty-line", "Complete returned but no %s has been seen" % ("CR LF" if self.kind == "chunk" else "empty line after the start line"))
            n = payload["n"]
            t, c = sym_of(n)
            got = ("B",) + self.loc_add(("B", (("B", 1),), 0), t, c)
            if not self.same_pos(st, got, at):
                m.violate(st, "framing:offset", "Complete(n) with n = %s but the first %s ends at %s" % (m.show_sym(n), "CR LF" if self.kind == "chunk" else "empty line", self.show_loc(st, at)))
        elif kind == "partial":
            if det[0] == "fired":
                m.violate(st, "framing:partial-with-empty-line", "Partial returned although the %s is already in the buffer" % ("CR LF" if self.kind == "chunk" else "empty line ending the head"))

    def check_headers_field(self, m, st, kind, payload):
        """C17: what `headers` refers to when the call returns."""
        pb = m.p.ptr_bytes * 8
        if self.kind == "headers":
            if kind == "complete":
                h = payload["headers"]
                if h[0] != "fat" or h[1][0] != "D" or h[1][1] != "ARG" or not self.same_value(m, st, h[1][2], mk_int(0, pb)):
                    m.violate(st, "headers:result-slice", "parse_headers returns a slice that does not start at the caller's array")
                elif not self.same_value(m, st, h[2], self.nstored):
                    m.violate(st, "headers:result-len", "parse_headers returns %s header(s), %s were stored" % (m.show_sym(h[2]), m.show_sym(self.nstored)))
            return
        if self.kind not in ("request", "response") or "SELF" not in st.heap:
            return
        names = st.flags.get("self_fields", ())
        if "headers" not in names:
            return
        h = st.heap["SELF"][1][names.index("headers")]
        uninit_root = "uninit" in self.root
        arr = "ARG" if uninit_root else "SELF"
        if kind == "complete":
            if not self.flags.get("headers_assigned"):
                m.violate(st, "history:headers-not-assigned", "Complete but `headers` was not assigned in this call: it still shows what an earlier call left there", fatal=False)
            if h[0] != "fat" or h[1][0] != "D" or h[1][1] != arr or not self.same_value(m, st, h[1][2], mk_int(0, pb)):
                m.violate(st, "headers:complete-slice", "on Complete `headers` does not refer to the start of the array handed to this call")
            elif not self.same_value(m, st, h[2], self.nstored):
                m.violate(st, "headers:complete-len", "on Complete headers.len() is %s but %s header(s) were stored" % (m.show_sym(h[2]), m.show_sym(self.nstored)))
        else:
            orig = ("sym", (("CAP:SELF", 1),), 0, pb, False)
            if h[0] != "fat" or h[1][0] != "D" or h[1][1] != "SELF" or not self.same_value(m, st, h[1][2], mk_int(0, pb)) or not self.same_value(m, st, h[2], orig):
                what = "the caller's whole array was not put back" if not uninit_root else "`headers` was modified"
                m.violate(st, "headers:not-restored", "after %s %s (now %s)" % (kind, what, self.show_hdr(m, h)))

    def show_hdr(self, m, h):
        if h[0] != "fat":
            return h[0]
        if h[1][0] == "D":
            return "%s[%s..][..%s]" % (h[1][1], m.show_sym(h[1][2]), m.show_sym(h[2]))
        return "slice at %s of length %s" % (h[1][0], m.show_sym(h[2]) if h[2][0] in ("int", "sym") else h[2][0])

    def check_headers_result(self, m, st, payload, sim):
        pass


def show_verdict(kind, payload):
    if kind == "err":
        return "Err(%s)" % payload
    return kind.capitalize()


def decode_result(m, st, rv, kind):
    """(kind, payload) with kind in complete/partial/err from the root's return value."""
    if rv[0] != "enum":
        raise Unanalysable("entry point returned %s" % rv[0])
    if rv[1] == 1:
        e = rv[2][0]
        if kind == "chunk":
            return "err", "InvalidChunkSize"
        if e[0] != "enum":
            raise Unanalysable("error payload %s" % e[0])
        return "err", error_names(m)[e[1]]
    s = rv[2][0]
    if s[0] != "enum":
        raise Unanalysable("status payload %s" % s[0])
    if s[1] == 1:
        return "partial", None
    p = s[2][0]
    if kind == "chunk":
        return "complete", {"n": p[1][0], "size": p[1][1]}
    if kind == "headers":
        return "complete", {"n": p[1][0], "headers": p[1][1]}
    return "complete", {"n": p}


def error_names(m):
    names = m.shared.get("error_names")
    if names is None:
        for t in m.p.types:
            if t and t["k"] == "adt" and t["adt_kind"] == "enum" and t["path"] == "Error" and t["crate"] == m.p.f["crate"]:
                names = [v["name"] for v in t["variants"]]
        if names is None:
            raise Unanalysable("anchor missing: enum Error")
        m.shared["error_names"] = names
    return names


REQ_OPTS = {"ms_req": "allow_multiple_spaces_in_request_line_delimiters", "sb": "allow_space_before_first_header_name",
            "ign": "ignore_invalid_headers_in_requests"}
RESP_OPTS = {"ms_resp": "allow_multiple_spaces_in_response_status_delimiters", "sa": "allow_spaces_after_header_name_in_responses",
             "fold": "allow_obsolete_multiline_headers_in_responses", "sb": "allow_space_before_first_header_name",
             "ign": "ignore_invalid_headers_in_responses"}


def spec_for_root(root, kind):
    """The reference the statement assigns to an entry point: which options apply, and whether
    they come from the caller's ParserConfig or are the defaults."""
    configured = root.startswith("ParserConfig::")
    names = REQ_OPTS if kind == "request" else (RESP_OPTS if kind == "response" else {})
    opts = {}
    for k, field in names.items():
        opts[k] = ("env", "cfg:" + field) if configured else ("const", False)
    mon = SpecMon(kind, root, opts)
    if configured and names:
        mon.dflt = SpecMon(kind, root, {k: ("const", False) for k in names})
        mon.dflt.lite = True
        mon.dflt.det = ("lost",)
    return mon
