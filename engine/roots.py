"""Initial abstract states for the public entry points."""
from .absm import State, Unanalysable, mk_int, UNINIT, UNIT
from . import mir as M

ENTRY_POINTS = {
    # name -> (def path, kind)
    "Request::parse": ("Request::<'h, 'b>::parse", "request"),
    "Request::parse_with_uninit_headers": ("Request::<'h, 'b>::parse_with_uninit_headers", "request"),
    "ParserConfig::parse_request": ("ParserConfig::parse_request", "request"),
    "ParserConfig::parse_request_with_uninit_headers": ("ParserConfig::parse_request_with_uninit_headers", "request"),
    "Response::parse": ("Response::<'h, 'b>::parse", "response"),
    "ParserConfig::parse_response": ("ParserConfig::parse_response", "response"),
    "ParserConfig::parse_response_with_uninit_headers": ("ParserConfig::parse_response_with_uninit_headers", "response"),
    "parse_headers": ("parse_headers", "headers"),
    "parse_chunk_size": ("parse_chunk_size", "chunk"),
}


def find_root(prog, name):
    path, kind = ENTRY_POINTS[name]
    cands = [i for i in prog.insts if i["local"] and i["path"] == path]
    if not cands:
        npath = M.norm_path(path)
        cands = [i for i in prog.insts if i["local"] and i["npath"] == npath]
    if not cands:
        # the item may have moved to another module (re-exported under the same public name)
        npath = M.norm_path(path)
        cands = [i for i in prog.insts if i["local"] and i["kind"] == "item" and M.tail_is(i["npath"], npath)]
    if len(cands) != 1:
        raise Unanalysable("anchor missing: entry point %s (%d candidates)" % (name, len(cands)))
    return cands[0], kind


def buf_value(pb):
    return ("fat", ("B", (("B", 1),), 0), ("sym", (("B", -1), ("E", 1)), 0, pb, False), None)


def hdr_slice(arr, pb):
    return ("fat", ("D", arr, mk_int(0, pb), ()), ("sym", (("CAP:" + arr, 1),), 0, pb, False), None)


def initial_state(m, name):
    prog = m.p
    inst, kind = find_root(prog, name)
    pb = prog.ptr_bytes * 8
    st = State()
    body = inst["body"]
    args = []
    for i in range(1, body["argc"] + 1):
        tid = body["locals"][i]["ty"]
        t = prog.types[tid]
        args.append(arg_value(m, st, tid, t, pb, body["locals"][i]["name"] or "arg%d" % i))
    m.push_frame(st, inst["id"], args, None, None)
    st.flags["root"] = name
    return st, kind


def arg_value(m, st, tid, t, pb, argname):
    prog = m.p
    if t["k"] == "ref":
        to = prog.types[t["to"]]
        if to["k"] == "slice":
            el = prog.types[to["elem"]]
            if el["k"] == "int" and el["size"] == 1:
                return buf_value(pb)
            return hdr_slice("ARG", pb)
        if to["k"] == "adt":
            p = M.norm_path(to["path"])
            if p in ("Request", "Response"):
                fields = []
                for f in to["variants"][0]["fields"]:
                    ft = prog.types[f["ty"]]
                    if ft["k"] == "ref" and prog.types[ft["to"]]["k"] == "slice":
                        fields.append(hdr_slice("SELF", pb))
                    else:
                        fields.append(("hist", f["name"]))
                st.heap["SELF"] = ("agg", tuple(fields))
                st.flags["self_fields"] = tuple(f["name"] for f in to["variants"][0]["fields"])
                return ("ptr", ("H", "SELF", ()))
            if M.tail_is(p, "ParserConfig"):
                fields = tuple(("env", "cfg:" + f["name"], True) for f in to["variants"][0]["fields"])
                st.heap["CONFIG"] = ("agg", fields)
                return ("ptr", ("H", "CONFIG", ()))
            if M.tail_is(p, "Bytes"):
                raise Unanalysable("root taking &mut Bytes needs the benchable harness")
    raise Unanalysable("cannot build an abstract argument of type %s" % t["s"])


def bytes_state(m, inst_id, window="any"):
    """Initial state for a function taking `&mut Bytes`: an arbitrary cursor state reachable
    through the safe API (start <= cursor <= end, any amount of uncommitted input behind)."""
    prog = m.p
    pb = prog.ptr_bytes * 8
    st = State()
    st.chain = ["B"]
    st.cur_gap = (0, False)
    st.w_old = (1 << 256) - 1
    st.w_old_len = (0, False)
    st.w_first = ("m", (1 << 256) - 1)
    bt = None
    for i, t in enumerate(prog.types):
        if t and t["k"] == "adt" and M.tail_is(M.norm_path(t["path"]), "Bytes"):
            bt = t
    if bt is None:
        raise Unanalysable("anchor missing: type iter::Bytes")
    cur = st.cur_tok()
    vals = []
    for i, f in enumerate(bt["variants"][0]["fields"]):
        role = m.bytes_field_role(i)
        if role == "start":
            vals.append(("ptr", ("B", (("B", 1),), 0)))
        elif role == "end":
            vals.append(("ptr", ("B", (("E", 1),), 0)))
        elif role == "cursor":
            vals.append(("ptr", ("B", ((cur, 1),), 0)))
        else:
            vals.append(("agg", ()))
    st.heap["BYTES"] = ("agg", tuple(vals))
    st.flags["bytes_new"] = 1
    st.flags["w_start"] = ("B", (("B", 1),), 0)
    m.push_frame(st, inst_id, [("ptr", ("H", "BYTES", ()))], None, None)
    return st
